//! Subprocess driver for the real engine binary (black-box checks C03, C13, C16).
//!
//! One run = start the binary, write the whole input, close stdin, collect stdout to end of
//! file and the exit status. The termination horizon is counted in the engine's own CPU time: a
//! process is "not terminating" when it has consumed `horizon` of CPU without exiting, or when,
//! `horizon` of wall time after its input ended, it is not even runnable (asleep or blocked: with
//! stdin closed nothing can wake it). A process that is runnable but has not had its CPU share yet
//! (busy machine) is waited for, up to 20 x horizon of wall time.

use std::io::{Read, Write};
use std::process::{Command, Stdio};
use std::time::{Duration, Instant};

#[derive(Debug, Clone, PartialEq, Eq)]
pub struct RunResult {
    pub stdout: String,
    /// Some(code) if the process exited by itself, None if it was killed by a signal
    pub exit_code: Option<i32>,
    pub signal: Option<i32>,
    /// the process did not exit within the horizon after stdin was closed and was killed
    pub timed_out: bool,
    pub wall_ms: u64,
}

pub struct Opts<'a> {
    pub exe: &'a str,
    /// node clock: N nodes per virtual millisecond (hooks-on binary only)
    pub node_clock: Option<u64>,
    pub zseed: Option<u64>,
    pub horizon: Duration,
}

/// Runs the engine once; a run that was ended by SIGTERM/SIGKILL from outside (not by this
/// driver's own horizon) says nothing about the engine and is repeated, up to twice.
pub fn run(o: &Opts, input: &[u8]) -> Result<RunResult, String> {
    let mut last = run_once(o, input)?;
    for _ in 0..2 {
        if !last.timed_out && matches!(last.signal, Some(9) | Some(15)) {
            last = run_once(o, input)?;
        } else {
            break;
        }
    }
    Ok(last)
}

fn run_once(o: &Opts, input: &[u8]) -> Result<RunResult, String> {
    let mut cmd = Command::new(o.exe);
    cmd.stdin(Stdio::piped()).stdout(Stdio::piped()).stderr(Stdio::null());
    cmd.env_remove("FLOUNDER_VERIF_NODE_CLOCK").env_remove("FLOUNDER_VERIF_ZSEED");
    if let Some(n) = o.node_clock {
        cmd.env("FLOUNDER_VERIF_NODE_CLOCK", n.to_string());
    }
    if let Some(s) = o.zseed {
        cmd.env("FLOUNDER_VERIF_ZSEED", s.to_string());
    }
    let t0 = Instant::now();
    let mut child = cmd.spawn().map_err(|e| format!("cannot start {}: {}", o.exe, e))?;
    let mut stdin = child.stdin.take().unwrap();
    let mut stdout = child.stdout.take().unwrap();
    let reader = std::thread::spawn(move || {
        let mut buf = Vec::new();
        let _ = stdout.read_to_end(&mut buf);
        buf
    });
    // The engine may exit (quit) before it has read everything: a broken pipe is expected.
    let _ = stdin.write_all(input);
    drop(stdin);
    let mut timed_out = false;
    let status = loop {
        match child.try_wait() {
            Ok(Some(st)) => break st,
            Ok(None) => {
                if t0.elapsed() >= o.horizon && stuck(child.id(), o.horizon, t0) {
                    timed_out = true;
                    let _ = child.kill();
                    break child.wait().map_err(|e| e.to_string())?;
                }
                std::thread::sleep(Duration::from_micros(300));
            }
            Err(e) => return Err(e.to_string()),
        }
    };
    let out = reader.join().map_err(|_| "reader thread panicked".to_string())?;
    use std::os::unix::process::ExitStatusExt;
    Ok(RunResult {
        stdout: String::from_utf8_lossy(&out).into_owned(),
        exit_code: status.code(),
        signal: status.signal(),
        timed_out,
        wall_ms: t0.elapsed().as_millis() as u64,
    })
}

/// Called once the wall horizon has passed: is the process really not terminating?
fn stuck(pid: u32, horizon: Duration, t0: Instant) -> bool {
    if t0.elapsed() >= horizon * 20 {
        return true;
    }
    match crate::cputime::process_cpu(pid) {
        None => true, // no /proc entry to consult: the plain wall horizon decides
        Some((cpu, state)) => {
            if cpu >= horizon {
                return true;
            }
            if state == 'R' {
                return false; // runnable, short of CPU: the machine is busy, not the engine stuck
            }
            // asleep or blocked: look again a little later, it may just have been between two slices
            std::thread::sleep(Duration::from_millis(200));
            match crate::cputime::process_cpu(pid) {
                Some((cpu2, state2)) => state2 != 'R' && cpu2 == cpu,
                None => false, // it has exited meanwhile
            }
        }
    }
}

/// Lines of stdout with the wall-clock dependent `time` and `nps` fields of info lines removed.
pub fn normalise(stdout: &str) -> Vec<String> {
    stdout
        .lines()
        .map(|l| {
            if l.starts_with("info ") {
                let toks: Vec<&str> = l.split_whitespace().collect();
                let mut out = Vec::new();
                let mut i = 0;
                while i < toks.len() {
                    if (toks[i] == "time" || toks[i] == "nps") && i + 1 < toks.len() {
                        i += 2;
                        continue;
                    }
                    out.push(toks[i]);
                    i += 1;
                }
                out.join(" ")
            } else {
                l.trim_end().to_string()
            }
        })
        .collect()
}

/// Interactive session with the engine (real time): lines are sent one at a time and the
/// moment each output line arrives is recorded. Used only for the coarse real-clock part of C07.
pub struct Session {
    child: std::process::Child,
    stdin: Option<std::process::ChildStdin>,
    rx: std::sync::mpsc::Receiver<(String, Instant)>,
}

impl Session {
    pub fn start(exe: &str) -> Result<Session, String> {
        let mut cmd = Command::new(exe);
        cmd.stdin(Stdio::piped()).stdout(Stdio::piped()).stderr(Stdio::null());
        cmd.env_remove("FLOUNDER_VERIF_NODE_CLOCK").env_remove("FLOUNDER_VERIF_ZSEED");
        let mut child = cmd.spawn().map_err(|e| format!("cannot start {}: {}", exe, e))?;
        let stdin = child.stdin.take();
        let stdout = child.stdout.take().unwrap();
        let (tx, rx) = std::sync::mpsc::channel();
        std::thread::spawn(move || {
            use std::io::BufRead;
            let r = std::io::BufReader::new(stdout);
            for line in r.lines() {
                match line {
                    Ok(l) => {
                        if tx.send((l, Instant::now())).is_err() {
                            break;
                        }
                    }
                    Err(_) => break,
                }
            }
        });
        Ok(Session { child, stdin, rx })
    }

    pub fn pid(&self) -> u32 {
        self.child.id()
    }

    pub fn send(&mut self, line: &str) {
        if let Some(s) = self.stdin.as_mut() {
            let _ = s.write_all(line.as_bytes());
            let _ = s.write_all(b"\n");
            let _ = s.flush();
        }
    }

    /// Waits for a line with this prefix; None on timeout or end of output.
    pub fn wait_for(&mut self, prefix: &str, timeout: Duration) -> Option<(String, Instant)> {
        let deadline = Instant::now() + timeout;
        loop {
            let left = deadline.checked_duration_since(Instant::now())?;
            match self.rx.recv_timeout(left) {
                Ok((l, t)) => {
                    if l.starts_with(prefix) {
                        return Some((l, t));
                    }
                }
                Err(_) => return None,
            }
        }
    }
}

impl Drop for Session {
    fn drop(&mut self) {
        self.stdin = None;
        let _ = self.child.kill();
        let _ = self.child.wait();
    }
}
