//! flounder-mc: model-checking harness for zacharygarwood/Flounder.
//! The repository's modules are compiled from /repo/src by path (see build.rs).
#![allow(dead_code, unused_imports, unused_variables, clippy::all)]

include!(concat!(env!("OUT_DIR"), "/repo_mods.rs"));

mod blackbox;
mod cputime;
mod crumb;
mod eng;
mod extreme;
#[cfg(feature = "search")]
mod graph;
mod json;
mod longgame;
mod par;
mod props;
mod refchess;
mod report;
mod roots;
#[cfg(feature = "search")]
mod searchref;
mod watch;

#[cfg(feature = "search")]
use props::posprops::{self, Which};

fn arg(args: &[String], name: &str) -> Option<String> {
    args.iter().position(|a| a == name).and_then(|i| args.get(i + 1)).cloned()
}

fn engine_hooks(args: &[String]) -> String {
    arg(args, "--engine").unwrap_or_else(|| {
        eprintln!("this command needs --engine <hooks-on binary>");
        std::process::exit(2)
    })
}

fn engine_plain(args: &[String]) -> String {
    arg(args, "--engine-plain").unwrap_or_else(|| {
        eprintln!("this command needs --engine-plain <hooks-off binary>");
        std::process::exit(2)
    })
}

fn main() {
    let args: Vec<String> = std::env::args().skip(1).collect();
    if args.is_empty() {
        eprintln!("usage: flounder-mc <command> [--tier quick|thorough] [--seed N] [--out FILE]");
        std::process::exit(2);
    }
    // A panic inside the subject is caught per call (eng::guard); keep its message short.
    std::panic::set_hook(Box::new(|_| {}));
    crumb::install();
    let tier = arg(&args, "--tier").unwrap_or_else(|| "quick".into());
    let seed: u64 = arg(&args, "--seed").and_then(|s| s.parse().ok()).unwrap_or(0);
    let out = arg(&args, "--out").unwrap_or_else(|| "/dev/null".into());
    let cmd = args[0].clone();
    let code = dispatch(&cmd, &args, &tier, seed, &out);
    std::process::exit(code);
}

/// The harness is built once per group of properties (cargo features), so that a change of one
/// public signature in the repository can only stop the checks that really call it from building.
fn dispatch(cmd: &str, args: &[String], tier: &str, seed: u64, out: &str) -> i32 {
    let tier = tier.to_string();
    let out = out.to_string();
    let args: Vec<String> = args.to_vec();
    if let Some(c) = dispatch_base(cmd, &args, &tier, seed, &out) {
        return c;
    }
    #[cfg(feature = "search")]
    if let Some(c) = dispatch_search(cmd, &args, &tier, seed, &out) {
        return c;
    }
    #[cfg(feature = "c10")]
    if let Some(c) = dispatch_c10(cmd, &args, &tier, seed, &out) {
        return c;
    }
    #[cfg(feature = "c11")]
    if let Some(c) = dispatch_c11(cmd, &args, &tier, seed, &out) {
        return c;
    }
    #[cfg(feature = "c12")]
    if let Some(c) = dispatch_c12(cmd, &args, &tier, seed, &out) {
        return c;
    }
    #[cfg(feature = "c14")]
    if let Some(c) = dispatch_c14(cmd, &args, &tier, seed, &out) {
        return c;
    }
    #[cfg(feature = "c15")]
    if let Some(c) = dispatch_c15(cmd, &args, &tier, seed, &out) {
        return c;
    }
    #[cfg(feature = "c04")]
    if let Some(c) = dispatch_c04(cmd, &args, &tier, seed, &out) {
        return c;
    }
    #[cfg(feature = "bb")]
    if let Some(c) = dispatch_bb(cmd, &args, &tier, seed, &out) {
        return c;
    }
    eprintln!("unknown command {:?} (or not built into this binary)", cmd);
    2
}

fn dispatch_base(cmd: &str, args: &[String], tier: &String, seed: u64, out: &String) -> Option<i32> {
    let args: Vec<String> = args.to_vec();
    let tier = tier.clone();
    let out = out.clone();
    Some(match cmd {
        "info" => {
            println!("bound to {} modules: {:?}", env!("FLOUNDER_REPO_BOUND"), REPO_MODULES);
            0
        }
        "count" => {
            // model-only helper for building roots: validity, legal / tactical move counts
            let fen = arg(&args, "--fen").unwrap();
            match refchess::Pos::from_fen(&fen) {
                Ok(p) => println!("{} valid={:?} in_check={} legal={} tactical={}", fen, p.validity(), p.in_check(p.stm), p.legal_moves().len(), p.tactical_moves().len()),
                Err(e) => println!("{} unparsable: {}", fen, e),
            }
            0
        }
        "climb" => {
            let what = arg(&args, "--what").unwrap();
            let steps: u64 = arg(&args, "--steps").and_then(|x| x.parse().ok()).unwrap_or(200_000);
            let seeds: Vec<u64> = (0..16).map(|i| seed * 100 + i).collect();
            let res = par::par_map(&seeds, |s| extreme::climb(&what, *s, steps));
            let mut res = res;
            res.sort();
            for (v, f) in res.iter().rev().take(6) {
                println!("{} {}", v, f);
            }
            0
        }
        "selftest" => match refchess::self_test(if tier == "thorough" { 5 } else { 4 }) {
            Ok(n) => {
                println!("refchess perft matches published values ({} nodes)", n);
                0
            }
            Err(e) => {
                eprintln!("{}", e);
                2
            }
        },
        _ => return None,
    })
}

#[cfg(feature = "search")]
fn dispatch_search(cmd: &str, args: &[String], tier: &String, seed: u64, out: &String) -> Option<i32> {
    let args: Vec<String> = args.to_vec();
    let tier = tier.clone();
    let out = out.clone();
    Some(match cmd {
        "c01" => {
            posprops::run(Which::C01, &tier, seed, &out);
            0
        }
        "c02" => {
            posprops::run(Which::C02, &tier, seed, &out);
            0
        }
        "c17" => {
            posprops::run(Which::C17, &tier, seed, &out);
            0
        }
        "c05" => {
            props::c05::run(&tier, seed, &out);
            0
        }
        "c05-one" => props::c05::replay_one(&arg(&args, "--fen").unwrap(), arg(&args, "--depth").unwrap().parse().unwrap(), arg(&args, "--mode").as_deref() == Some("fixed")),
        "c06" => {
            props::c0607::run("C06", &tier, seed, &out, None);
            0
        }
        "c07" => {
            props::c0607::run("C07", &tier, seed, &out, arg(&args, "--engine-plain").as_deref());
            0
        }
        "c06-one" => props::c0607::replay_one("C06", &arg(&args, "--fen").unwrap(), arg(&args, "--depth").unwrap().parse().unwrap(), &arg(&args, "--at").unwrap(), arg(&args, "--final-depth").and_then(|x| x.parse().ok())),
        "c07-one" => props::c0607::replay_one("C07", &arg(&args, "--fen").unwrap(), arg(&args, "--depth").unwrap().parse().unwrap(), &arg(&args, "--at").unwrap(), None),
        "c06-real-zero" => props::c0607::replay_real_zero(&arg(&args, "--fen").unwrap(), arg(&args, "--depth").unwrap().parse().unwrap(), arg(&args, "--first-depth").unwrap().parse().unwrap()),
        "c06-cmd" => props::c0607::replay_command_point(&arg(&args, "--fen").unwrap(), arg(&args, "--final-depth").unwrap().parse().unwrap(), &arg(&args, "--mode").unwrap(), arg(&args, "--at").unwrap().parse().unwrap()),
        "c06-history" => props::c0607::replay_history(&arg(&args, "--fen").unwrap(), arg(&args, "--depth").unwrap().parse().unwrap(), arg(&args, "--at").unwrap().parse().unwrap()),
        "c07-real" => props::c0607::replay_real(&engine_plain(&args), &arg(&args, "--prior").unwrap_or_default(), &arg(&args, "--target").unwrap(), &arg(&args, "--go").unwrap(), arg(&args, "--budget").unwrap().parse().unwrap()),
        "c07-big" => props::c0607::replay_big(&arg(&args, "--fen").unwrap(), &arg(&args, "--stages").unwrap(), arg(&args, "--stage").unwrap().parse().unwrap(), arg(&args, "--which").unwrap().parse().unwrap(), arg(&args, "--budget").unwrap().parse().unwrap()),
        "c07-go" => props::c0607::replay_go(&arg(&args, "--cmds").unwrap()),
        "c15-engine" => {
            props::c15engine::run(&tier, seed, &out);
            0
        }
        "c15-engine-one" => props::c15engine::replay(&arg(&args, "--seq").unwrap()),
        "c08" => {
            props::c08::run(&tier, seed, &out);
            0
        }
        "wild-scan" => {
            // offline helper: states near capture-rich roots that have a mate in one and whose
            // depth-1 search is large but finishes (used to pick the wild positions of C08)
            use crate::refchess::Pos;
            let roots = [
                "r3k2r/Pppp1ppp/1b3nbN/nP6/BBP1P3/q4N2/Pp1P2PP/R2Q1RK1 w kq - 0 1",
                "r2q1rk1/pP1p2pp/Q4n2/bbp1p3/Np6/1B3NBn/pPPP1PPP/R3K2R b KQ - 0 1",
                "rnbq1k1r/pp1Pbppp/2p5/8/2B5/8/PPP1NnPP/RNBQK2R w KQ - 1 8",
                "r4rk1/1pp1qppp/p1np1n2/2b1p1B1/2B1P1b1/P1NP1N2/1PP1QPPP/R4RK1 w - - 0 10",
                "r3k2r/p1ppqpb1/bn2pnp1/3PN3/1p2P3/2N2Q1p/PPPBBPPP/R3K2R w KQkq - 0 1",
            ];
            let depth: usize = arg(&args, "--plies").and_then(|x| x.parse().ok()).unwrap_or(2);
            let lo: u64 = arg(&args, "--lo").and_then(|x| x.parse().ok()).unwrap_or(1_200_000);
            let hi: u64 = arg(&args, "--hi").and_then(|x| x.parse().ok()).unwrap_or(8_000_000);
            let mut seen = std::collections::HashSet::new();
            let mut states: Vec<Pos> = Vec::new();
            let mut frontier: Vec<Pos> = roots.iter().flat_map(|f| { let p = Pos::from_fen(f).unwrap(); vec![p.mirror(), p] }).collect();
            for layer in 0..=depth {
                let mut next = Vec::new();
                for p in frontier {
                    if seen.insert(p.fen4()) {
                        if layer < depth {
                            for m in p.legal_moves() {
                                next.push(p.make(m));
                            }
                        }
                        states.push(p);
                    }
                }
                frontier = next;
            }
            let cands: Vec<Pos> = par::par_map(&states, |p| { let c = props::c08::analyse(p); if c.attack_case() || c.defence_case() { Some(p.clone()) } else { None } }).into_iter().flatten().collect();
            eprintln!("{} states, {} with a mate in one or mixed moves", states.len(), cands.len());
            let out: Vec<Option<(String, u64, bool)>> = par::par_map(&cands, |p| {
                timer::verif::set_node_clock(Some(1));
                let b = eng::board_of(p).ok()?;
                let mut s = search::Searcher::new();
                s.find_best_move(&b, 1, Some(std::time::Duration::from_millis(hi)));
                let n = s.verif_nodes();
                let finished = timer::verif::first_stop().is_none();
                if n >= lo { Some((p.fen4(), n, finished)) } else { None }
            });
            for x in out.into_iter().flatten() {
                println!("{} nodes={} finished={}", x.0, x.1, x.2);
            }
            0
        }
        "c08-one" => props::c08::replay(&arg(&args, "--fen").unwrap(), arg(&args, "--depth").unwrap().parse().unwrap(), arg(&args, "--mode").as_deref() == Some("attack")),
        "c09" => {
            props::c09::run(&tier, seed, &out);
            0
        }
        "c09-long-count" => {
            let gmax: usize = arg(&args, "--gmax").and_then(|x| x.parse().ok()).unwrap_or(400);
            for f in props::c09::LONG_FAMILIES {
                let mut ok = 0;
                let mut first_fail = None;
                for g in 0..=gmax {
                    for split in [false, true] {
                        if props::c09::long_history(f, g, split).is_some() {
                            ok += 1;
                        } else if first_fail.is_none() {
                            first_fail = Some((g, split));
                        }
                    }
                }
                println!("{}: built {} of {}, first failure {:?}", f.name, ok, 2 * (gmax + 1), first_fail);
            }
            0
        }
        "c09-one" => props::c09::replay(&arg(&args, "--start").unwrap(), &arg(&args, "--moves").unwrap_or_default(), arg(&args, "--prev-moves").as_deref()),
        "c01-hist" => posprops::replay_hist(Which::C01, &arg(&args, "--fens").unwrap()),
        "c02-hist" => posprops::replay_hist(Which::C02, &arg(&args, "--fens").unwrap()),
        "c17-hist" => posprops::replay_hist(Which::C17, &arg(&args, "--fens").unwrap()),
        "c01-path" => posprops::replay_path(Which::C01, &arg(&args, "--moves").unwrap_or_default()),
        "c02-path" => posprops::replay_path(Which::C02, &arg(&args, "--moves").unwrap_or_default()),
        "c17-path" => posprops::replay_path(Which::C17, &arg(&args, "--moves").unwrap_or_default()),
        "c01-one" => posprops::replay_one(Which::C01, &arg(&args, "--fen").unwrap()),
        "c02-search-one" => posprops::replay_search_one(&arg(&args, "--fen").unwrap(), arg(&args, "--depth").and_then(|c| c.parse().ok()).unwrap_or(3), arg(&args, "--cap").and_then(|c| c.parse().ok()).unwrap_or(4000)),
        "c02-one" => posprops::replay_one(Which::C02, &arg(&args, "--fen").unwrap()),
        "c17-trace-one" => posprops::replay_trace_one(&arg(&args, "--fen").unwrap()),
        "c17-exam-one" => posprops::replay_exam_one(&arg(&args, "--fen").unwrap(), &arg(&args, "--node").unwrap(), arg(&args, "--cap").and_then(|c| c.parse().ok()).unwrap_or(800), arg(&args, "--after-search").and_then(|c| c.parse().ok()).unwrap_or(0)),
        "c17-root-one" => posprops::replay_root_one(&arg(&args, "--fen").unwrap(), arg(&args, "--cap").and_then(|c| c.parse().ok()).unwrap_or(800), arg(&args, "--after-search").and_then(|c| c.parse().ok()).unwrap_or(0)),
        "c17-silent-one" => posprops::replay_silent_one(&arg(&args, "--fen").unwrap(), &arg(&args, "--node").unwrap(), arg(&args, "--cap").and_then(|c| c.parse().ok()).unwrap_or(800)),
        "c17-tight-one" => posprops::replay_tight_one(&arg(&args, "--fen").unwrap(), arg(&args, "--cap").and_then(|c| c.parse().ok()).unwrap_or(800)),
        "c17-trace-ctx" => posprops::replay_trace_ctx(&arg(&args, "--fen").unwrap(), &arg(&args, "--node").unwrap(), arg(&args, "--cap").and_then(|c| c.parse().ok()).unwrap_or(800), arg(&args, "--after-search").and_then(|c| c.parse().ok()).unwrap_or(0)),
        "c17-one" => posprops::replay_one(Which::C17, &arg(&args, "--fen").unwrap()),
        _ => return None,
    })
}

#[cfg(feature = "c10")]
fn dispatch_c10(cmd: &str, args: &[String], tier: &String, seed: u64, out: &String) -> Option<i32> {
    let args: Vec<String> = args.to_vec();
    let tier = tier.clone();
    let out = out.clone();
    Some(match cmd {
        "c10" => {
            props::c10::run(&tier, seed, &out);
            0
        }
        "c10-one" => props::c10::replay_slider(&arg(&args, "--piece").unwrap(), arg(&args, "--sq").unwrap().parse().unwrap(), arg(&args, "--occ").unwrap().parse().unwrap(), arg(&args, "--cpus").and_then(|c| c.parse().ok()).unwrap_or(0)),
        "c10-hist" => props::c10::replay_hist(&arg(&args, "--seq").unwrap(), arg(&args, "--cpus").and_then(|c| c.parse().ok()).unwrap_or(0)),
        "c10-between" => props::c10::replay_between(arg(&args, "--from").unwrap().parse().unwrap(), arg(&args, "--to").unwrap().parse().unwrap(), arg(&args, "--cpus").and_then(|c| c.parse().ok()).unwrap_or(0)),
        _ => return None,
    })
}

#[cfg(feature = "c11")]
fn dispatch_c11(cmd: &str, args: &[String], tier: &String, seed: u64, out: &String) -> Option<i32> {
    let args: Vec<String> = args.to_vec();
    let tier = tier.clone();
    let out = out.clone();
    Some(match cmd {
        "c11" => {
            props::c11::run(&tier, seed, &out);
            0
        }
        "c11-search-one" => props::c11::replay_search_one(&arg(&args, "--fen").unwrap(), arg(&args, "--depth").and_then(|c| c.parse().ok()).unwrap_or(3), arg(&args, "--cap").and_then(|c| c.parse().ok()).unwrap_or(6000)),
        "c11-one" => props::c11::replay_one(&arg(&args, "--fen").unwrap(), seed),
        _ => return None,
    })
}

#[cfg(feature = "c12")]
fn dispatch_c12(cmd: &str, args: &[String], tier: &String, seed: u64, out: &String) -> Option<i32> {
    let args: Vec<String> = args.to_vec();
    let tier = tier.clone();
    let out = out.clone();
    Some(match cmd {
        "c12" => {
            props::c12::run(&tier, seed, &out, arg(&args, "--engine").as_deref());
            0
        }
        "c12-session" => props::c12::replay_session(&arg(&args, "--stm").unwrap(), &arg(&args, "--cmds").unwrap(), arg(&args, "--own-time").unwrap().parse().unwrap(), arg(&args, "--own-inc").unwrap().parse().unwrap()),
        "c12-pair" => props::c12::replay_pair(&arg(&args, "--stm").unwrap(), &arg(&args, "--first").unwrap(), &arg(&args, "--second").unwrap(), arg(&args, "--own-time").unwrap().parse().unwrap(), arg(&args, "--own-inc").unwrap().parse().unwrap()),
        "c12-spend" => props::c12::replay_spend(&arg(&args, "--fen").unwrap(), arg(&args, "--time").unwrap().parse().unwrap(), arg(&args, "--inc").unwrap().parse().unwrap()),
        "c12-one" => props::c12::replay(&arg(&args, "--stm").unwrap(), &arg(&args, "--line").unwrap(), arg(&args, "--own-time").unwrap().parse().unwrap(), arg(&args, "--own-inc").unwrap().parse().unwrap()),
        _ => return None,
    })
}

#[cfg(feature = "c14")]
fn dispatch_c14(cmd: &str, args: &[String], tier: &String, seed: u64, out: &String) -> Option<i32> {
    let args: Vec<String> = args.to_vec();
    let tier = tier.clone();
    let out = out.clone();
    Some(match cmd {
        "c14" => {
            props::c14::run(&tier, seed, &out);
            0
        }
        "c14-path" => props::c14::replay_path(&arg(&args, "--root").unwrap(), &arg(&args, "--moves").unwrap_or_default()),
        "c14-one" => props::c14::replay_one(&arg(&args, "--fen").unwrap()),
        "c14-sig" => props::c14::replay_sig(&arg(&args, "--fen").unwrap()),
        "c14-seq" => props::c14::replay_seq(arg(&args, "--a").unwrap().parse().unwrap(), arg(&args, "--b").unwrap().parse().unwrap(), arg(&args, "--c").unwrap().parse().unwrap()),
        _ => return None,
    })
}

#[cfg(feature = "c15")]
fn dispatch_c15(cmd: &str, args: &[String], tier: &String, seed: u64, out: &String) -> Option<i32> {
    let args: Vec<String> = args.to_vec();
    let tier = tier.clone();
    let out = out.clone();
    Some(match cmd {
        "c15" => {
            props::c15::run(&tier, seed, &out);
            0
        }
        "c15-long" => props::c15::replay_long(arg(&args, "--steps").unwrap().parse().unwrap(), seed, arg(&args, "--variant").unwrap().parse().unwrap()),
        "c15-one" => props::c15::replay(&arg(&args, "--seq").unwrap(), seed),
        _ => return None,
    })
}

#[cfg(feature = "c04")]
fn dispatch_c04(cmd: &str, args: &[String], tier: &String, seed: u64, out: &String) -> Option<i32> {
    let args: Vec<String> = args.to_vec();
    let tier = tier.clone();
    let out = out.clone();
    Some(match cmd {
        "c04" => {
            props::c04::run(&tier, seed, &out);
            0
        }
        "c04-one" => props::c04::replay(&arg(&args, "--cmds").unwrap()),
        "c04-long" => props::c04::replay_very_long(arg(&args, "--plies").unwrap().parse().unwrap()),
        _ => return None,
    })
}

#[cfg(feature = "bb")]
fn dispatch_bb(cmd: &str, args: &[String], tier: &String, seed: u64, out: &String) -> Option<i32> {
    let args: Vec<String> = args.to_vec();
    let tier = tier.clone();
    let out = out.clone();
    Some(match cmd {
        "c03" => {
            props::c03::run(&tier, seed, &out, &engine_hooks(&args));
            0
        }
        "c03-one" => props::c03::replay(&arg(&args, "--history").unwrap(), &engine_hooks(&args), arg(&args, "--nodes-per-ms").and_then(|x| x.parse().ok()).unwrap_or(1)),
        "c13" => {
            props::c13::run(&tier, seed, &out, &engine_hooks(&args));
            0
        }
        "c13-one" => props::c13::replay(&arg(&args, "--history").unwrap_or_default(), arg(&args, "--k").and_then(|k| k.parse().ok()).unwrap_or(2), &engine_hooks(&args), seed),
        "c13-deep" => props::c13::replay_deep(arg(&args, "--index").unwrap().parse().unwrap(), &tier, &engine_hooks(&args), seed),
        "c16" => {
            props::c16::run(&tier, seed, &out, &engine_hooks(&args), &engine_plain(&args));
            0
        }
        "c16-one" => {
            let which = arg(&args, "--which").unwrap_or_else(|| "hooks off".into());
            let exe = if which == "hooks on" { engine_hooks(&args) } else { engine_plain(&args) };
            props::c16::replay(&arg(&args, "--input").unwrap_or_default(), arg(&args, "--final-newline").as_deref() != Some("no"), &exe, &which)
        }
        _ => return None,
    })
}
