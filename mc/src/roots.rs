//! Position spaces shared by the position properties: hand-built roots that force the special
//! rules to collide, and complete small-material classes.

use crate::refchess::{sq_at, Kind, Pos, Side, PERFT_SUITE};

/// Hand-built roots. Every one must be a valid position (checked at start-up; an invalid root
/// is a machinery error). The colour-mirrored twin of each root is added automatically.
pub const SPECIAL_ROOTS: &[(&str, &str)] = &[
    // --- en passant colliding with pins and checks
    ("ep: capturer and victim both leave the king's rank (rook behind)", "8/8/8/K2pP2r/8/8/8/7k w - d6 0 1"),
    ("ep: capturer pinned on a diagonal it leaves", "7k/6b1/8/3pP3/8/2K5/8/8 w - d6 0 1"),
    ("ep: capturer pinned on the diagonal it stays on", "7k/2b5/8/3pP3/8/6K1/8/8 w - d6 0 1"),
    ("ep: king in check by the pushed pawn (e-pawn may take it)", "7k/8/8/3pP3/4K3/8/8/8 w - d6 0 1"),
    ("ep: king in check by the pushed pawn (c-pawn may take it)", "7k/8/8/2Pp4/4K3/8/8/8 w - d6 0 1"),
    ("ep: capture discovers check on the enemy king", "4k3/8/8/3pP3/8/8/8/4R1K1 w - d6 0 1"),
    ("ep: double push discovered a bishop check, ep does not block it", "2b4k/8/8/3pP3/6K1/8/8/8 w - d6 0 1"),
    ("ep: two capturers, one pinned on the file", "4r2k/8/8/3PpP2/8/8/8/5K2 w - e6 0 1"),
    ("ep: victim removal opens a diagonal onto own king", "7k/1K6/8/3pP3/8/8/8/7b w - d6 0 1"),
    ("ep: victim pinned to own king diagonally after capture", "8/8/4b3/3pP3/2K5/8/8/7k w - d6 0 1"),
    ("ep: black to move, mirrored rank pin", "7K/8/8/8/k2Pp2R/8/8/8 b - d3 0 1"),
    ("ep available in the opening", "rnbqkbnr/pppp1ppp/8/8/4pP2/8/PPPPP1PP/RNBQKBNR b KQkq f3 0 2"),
    // --- castling
    ("castling: all rights, open board", "r3k2r/8/8/8/8/8/8/R3K2R w KQkq - 0 1"),
    ("castling: b1 attacked only (queen side still legal)", "1r2k2r/8/8/8/8/8/8/R3K2R w KQk - 0 1"),
    ("castling: c1 attacked", "2r1k2r/8/8/8/8/8/8/R3K2R w KQk - 0 1"),
    ("castling: d1 attacked", "3rk2r/8/8/8/8/8/8/R3K2R w KQk - 0 1"),
    ("castling: f1 attacked", "r3kr2/8/8/8/8/8/8/R3K2R w KQq - 0 1"),
    ("castling: g1 attacked", "r3k1r1/8/8/8/8/8/8/R3K2R w KQq - 0 1"),
    ("castling: pawn on e2 covers d1 and f1", "r3k2r/8/8/8/8/8/4p3/R3K2R w KQkq - 0 1"),
    ("castling: knight covers g1", "r3k2r/8/8/8/8/7n/8/R3K2R w KQkq - 0 1"),
    ("castling: in check by a knight", "r3k2r/8/8/8/8/5n2/8/R3K2R w KQkq - 0 1"),
    ("castling: rooks can be captured on their home squares by promoting pawns", "r3k2r/1P6/8/8/8/8/6p1/R3K2R w KQkq - 0 1"),
    ("castling: same, black to move", "r3k2r/1P6/8/8/8/8/6p1/R3K2R b KQkq - 0 1"),
    ("castling: partial rights, rook not at home on one side", "r3k2r/8/8/8/8/8/8/1R2K2R w Kkq - 0 1"),
    ("castling: bishops aim at the home rooks", "r3k2r/8/8/3BB3/3bb3/8/8/R3K2R w KQkq - 0 1"),
    ("castling: gives check on the f-file", "5k2/8/8/8/8/8/8/4K2R w K - 0 1"),
    ("castling: blocked both sides by own pieces", "r3k2r/8/8/8/8/8/8/RN2K1NR w KQkq - 0 1"),
    // --- promotion
    ("promotion: pushes and captures, both sides", "1n2k3/P7/8/8/8/8/7p/4K1N1 w - - 0 1"),
    ("promotion: under-promotion gives check / avoids stalemate", "8/5P1k/8/8/8/8/8/K7 w - - 0 1"),
    ("promotion: pawn on the seventh pinned on its file", "2nr2k1/3P4/8/8/8/8/8/3K4 w - - 0 1"),
    ("promotion: capture while in check", "2r1k3/1P6/8/8/8/8/8/2K5 w - - 0 1"),
    ("promotion: discovered check by promoting pawn leaving the file", "3nk3/4P3/8/8/8/8/8/4RK2 w - - 0 1"),
    // --- checks
    ("double check: only king moves", "4r2k/8/8/8/8/3n4/2P5/2BQK3 w - - 0 1"),
    ("castling: knight covers b1 and f1, bishop behind it", "6k1/8/8/8/1b6/8/3n4/R3K2R w KQ - 0 1"),
    ("single check: block, capture or move; pinned defender", "4r2k/8/8/8/8/8/3NB3/r3K3 w - - 0 1"),
    ("king must not step back along the checking ray", "8/8/8/8/r3K3/8/8/7k w - - 0 1"),
    ("pins on all eight rays", "q2r2b1/8/2PPP3/r1PKP2r/2PPP3/8/b2r2q1/7k w - - 0 1"),
    ("pinned piece may capture its pinner", "7k/8/8/8/8/2b5/1B6/K7 w - - 0 1"),
    // --- terminal and near-terminal
    ("one move from mate or stalemate", "7k/5Q2/6K1/8/8/8/8/8 w - - 0 1"),
    ("stalemate", "7k/5Q2/6K1/8/8/8/8/8 b - - 0 1"),
    ("checkmate", "R6k/6pp/8/8/8/8/8/7K b - - 0 1"),
    ("smothered-mate pattern", "6rk/6pp/8/6N1/8/8/8/7K w - - 0 1"),
    // --- extreme material
    ("nine queens", "k7/8/8/8/8/8/1QQQQQQQ/1QQ1K3 b - - 0 1"),
    ("promotion race, many pawns one step from promoting", "6k1/PPPPP3/8/8/8/8/ppppp3/6K1 w - - 0 1"),
    // --- ordinary play
    ("italian middlegame", "r1bq1rk1/ppp2ppp/2np1n2/2b1p3/2B1P3/2PP1N2/PP3PPP/RNBQ1RK1 w - - 0 7"),
    ("open sicilian", "r1bqkb1r/pp2pppp/2np1n2/8/3NP3/2N5/PPP2PPP/R1BQKB1R w KQkq - 2 6"),
    ("rook endgame", "8/5pk1/6p1/R7/5P2/6P1/r4K2/8 w - - 0 40"),
];

/// Roots at the extremes of what a position can hold (found by the local search in extreme.rs,
/// material a game can reach): lists of moves as long as chess allows. A move list, a tactical
/// list or an evasion list kept in a container of fixed capacity is invisible on ordinary
/// positions. (name, FEN, objective, least count the rules model must report: start-up guard.)
pub const EXTREME_ROOTS: &[(&str, &str, &str, i64)] = &[
    ("218 legal moves (published record position)", "R6R/3Q4/1Q4Q1/4Q3/2Q4Q/Q4Q2/pp1Q4/kBNN1KB1 w - - 0 1", "legal", 218),
    ("218 legal moves (second published position)", "3Q4/1Q4Q1/4Q3/2Q4R/Q4Q2/3Q4/1Q4Rp/1K1BBNNk w - - 0 1", "legal", 218),
    ("216 legal moves", "bBbNnNBk/3Q3p/Q4R2/2Q4Q/4Q3/1Q4Q1/1K1Q4/R4Q2 w - - 0 1", "legal", 216),
    ("132 tactical moves", "R1b1Q1rr/rQ4Qr/3k3N/Q5Qr/2Q1Q1pN/6R1/nQr2QbB/bKbBqnb1 w - - 0 1", "tactical", 132),
    ("126 tactical moves, many promotions", "b1r1qq1b/1PNP2P1/bKpQr2R/pQp2Q1B/7k/RpQrQ3/b5Q1/1BN2nn1 w - - 0 1", "tactical", 126),
    ("120 tactical moves, four promoting pawns", "qRn1b1b1/QBNPNP1P/4npr1/5QnK/1kBQ3p/6Qp/Q4p1b/b1QnR1r1 w - - 0 1", "tactical", 120),
    ("87 captures, seven pawns capturing into promotion", "rrqbrnrq/1PPPPPPP/3N1N2/1b2R2n/Q3n3/2NBKBk1/pR2p3/1q1r4 w - - 0 1", "captures", 87),
    ("87 captures (second)", "bnbnqrrr/KPPPPPP1/2N1N1N1/2Q1b2R/1r1pRq1r/3N4/k2B1B2/2b1q3 w - - 0 1", "captures", 87),
    ("42 legal moves while in check", "4rRr1/rkqP1P1n/1nNQ1QNq/3Q1Qpb/3Q1Bq1/b2Q1BN1/2R4b/1b2K3 w - - 0 1", "evasions", 42),
    ("42 legal moves while in check (second)", "4r3/2pP1Pq1/2rQ1B2/2NQ1B1k/1nNQ1QN1/pb1Q1Q2/pbR3R1/4K3 w - - 0 1", "evasions", 42),
    ("100 quiet checking moves", "2N1Q3/2Q4B/Q4Q1K/3k4/NQ4Q1/4Q3/2Q4R/1BR2Q2 w - - 0 1", "checks", 100),
    ("eight pawns on the seventh against a full back rank", "rnrnrnrn/PPPPPPPP/8/8/8/8/8/K6k w - - 0 1", "tactical", 52),
];

/// The extreme roots with their colour mirrors; Err = machinery error (a root lost its count).
pub fn extreme_roots() -> Result<Vec<Root>, String> {
    let mut out = Vec::new();
    for (name, fen, what, least) in EXTREME_ROOTS {
        let p = Pos::from_fen(fen).map_err(|e| format!("extreme root {:?}: {}", fen, e))?;
        p.validity().map_err(|e| format!("extreme root {:?} is not a valid position: {}", fen, e))?;
        let got = crate::extreme::objective(&p, what);
        if got < *least {
            return Err(format!("extreme root {:?} ({}) has {} = {}, needs {}", fen, name, what, got, least));
        }
        let m = p.mirror();
        m.validity().map_err(|e| format!("mirror of extreme root {:?} invalid: {}", fen, e))?;
        out.push(Root { name: name.to_string(), pos: p });
        out.push(Root { name: format!("{} [mirrored]", name), pos: m });
    }
    Ok(out)
}

pub struct Root {
    pub name: String,
    pub pos: Pos,
}

/// All roots (perft suite + special) with their colour mirrors; Err = machinery error.
pub fn all_roots() -> Result<Vec<Root>, String> {
    let mut out: Vec<Root> = Vec::new();
    let mut add = |name: String, fen: &str| -> Result<(), String> {
        let p = Pos::from_fen(fen).map_err(|e| format!("root {:?}: {}", fen, e))?;
        p.validity().map_err(|e| format!("root {:?} ({}) is not a valid position: {}", fen, name, e))?;
        let m = p.mirror();
        m.validity().map_err(|e| format!("mirror of root {:?} invalid: {}", fen, e))?;
        out.push(Root { name: name.clone(), pos: p });
        out.push(Root { name: format!("{} [mirrored]", name), pos: m });
        Ok(())
    };
    for (i, (fen, _)) in PERFT_SUITE.iter().enumerate() {
        add(format!("perft position {}", i + 1), fen)?;
    }
    for (name, fen) in SPECIAL_ROOTS {
        add(name.to_string(), fen)?;
    }
    Ok(out)
}

/// Every consistent (castling subset, en-passant target) decoration of a bare placement.
pub fn decorations(base: &Pos) -> Vec<Pos> {
    let mut flags: Vec<usize> = Vec::new();
    let wk = base.sq[4] == Some((Side::W, Kind::K));
    let bk = base.sq[60] == Some((Side::B, Kind::K));
    if wk && base.sq[7] == Some((Side::W, Kind::R)) {
        flags.push(0);
    }
    if wk && base.sq[0] == Some((Side::W, Kind::R)) {
        flags.push(1);
    }
    if bk && base.sq[63] == Some((Side::B, Kind::R)) {
        flags.push(2);
    }
    if bk && base.sq[56] == Some((Side::B, Kind::R)) {
        flags.push(3);
    }
    let mut eps: Vec<Option<u8>> = vec![None];
    let (target_rank, pawn_rank, origin_rank, pusher) = if base.stm == Side::W {
        (5, 4, 6, Side::B)
    } else {
        (2, 3, 1, Side::W)
    };
    for f in 0..8 {
        let pawn = sq_at(f, pawn_rank).unwrap();
        let t = sq_at(f, target_rank).unwrap();
        let o = sq_at(f, origin_rank).unwrap();
        if base.sq[pawn as usize] == Some((pusher, Kind::P))
            && base.sq[t as usize].is_none()
            && base.sq[o as usize].is_none()
        {
            eps.push(Some(t));
        }
    }
    let mut out = Vec::new();
    for mask in 0..(1usize << flags.len()) {
        for ep in &eps {
            let mut p = base.clone();
            p.castle = [false; 4];
            for (i, f) in flags.iter().enumerate() {
                if mask & (1 << i) != 0 {
                    p.castle[*f] = true;
                }
            }
            p.ep = *ep;
            out.push(p);
        }
    }
    out
}

/// A complete material class: a list of "work units" (outer loop values) and a generator
/// that, for one unit, yields every valid position of the class in that unit.
pub struct Class {
    pub name: &'static str,
    pub description: &'static str,
    pub units: Vec<u32>,
    pub gen: fn(u32, &mut dyn FnMut(Pos)),
}

fn emit_valid(base: Pos, both_sides: bool, mirror_too: bool, out: &mut dyn FnMut(Pos)) {
    let sides: &[Side] = if both_sides { &[Side::W, Side::B] } else { &[Side::W] };
    for stm in sides {
        let mut b = base.clone();
        b.stm = *stm;
        b.castle = [false; 4];
        b.ep = None;
        for p in decorations(&b) {
            if p.is_valid() {
                if mirror_too {
                    out(p.mirror());
                }
                out(p);
            }
        }
    }
}

const NON_KING: [Kind; 5] = [Kind::P, Kind::N, Kind::B, Kind::R, Kind::Q];

/// F1: K, k and one more piece of any kind and colour, anywhere; both sides to move; every
/// consistent flag decoration. unit = white king square * 64 + black king square.
fn gen_f1(unit: u32, out: &mut dyn FnMut(Pos)) {
    let wk = (unit / 64) as usize;
    {
        let bk = (unit % 64) as usize;
        if bk == wk {
            return;
        }
        for x in 0..64usize {
            if x == wk || x == bk {
                continue;
            }
            for side in [Side::W, Side::B] {
                for kind in NON_KING {
                    let mut p = Pos::empty();
                    p.sq[wk] = Some((Side::W, Kind::K));
                    p.sq[bk] = Some((Side::B, Kind::K));
                    p.sq[x] = Some((side, kind));
                    emit_valid(p, true, false, out);
                }
            }
        }
    }
}

/// F2: every one-piece pin/check configuration of en passant. White pawn on its fifth rank,
/// black pawn beside it having just double-pushed (target set), K and k anywhere, one black
/// Q/R/B/N anywhere; plus the colour mirror. unit = (file of the white pawn * 2 + side of the victim) * 64 + white king square.
fn gen_f2(unit: u32, out: &mut dyn FnMut(Pos)) {
    let wk_only = (unit % 64) as usize;
    let unit = unit / 64;
    let f = (unit / 2) as i32;
    let vf = if unit % 2 == 0 { f - 1 } else { f + 1 };
    if !(0..8).contains(&vf) {
        return;
    }
    let wp = sq_at(f, 4).unwrap() as usize;
    let bp = sq_at(vf, 4).unwrap() as usize;
    let target = sq_at(vf, 5).unwrap();
    let origin = sq_at(vf, 6).unwrap() as usize;
    for wk in wk_only..=wk_only {
        for bk in 0..64usize {
            if bk == wk {
                continue;
            }
            for x in 0..64usize {
                for kind in [Kind::Q, Kind::R, Kind::B, Kind::N] {
                    let mut p = Pos::empty();
                    p.sq[wp] = Some((Side::W, Kind::P));
                    p.sq[bp] = Some((Side::B, Kind::P));
                    let occupied = |p: &Pos, s: usize| p.sq[s].is_some() || s == target as usize || s == origin;
                    if occupied(&p, wk) {
                        continue;
                    }
                    p.sq[wk] = Some((Side::W, Kind::K));
                    if occupied(&p, bk) {
                        continue;
                    }
                    p.sq[bk] = Some((Side::B, Kind::K));
                    if occupied(&p, x) {
                        continue;
                    }
                    p.sq[x] = Some((Side::B, kind));
                    p.stm = Side::W;
                    p.ep = Some(target);
                    if p.is_valid() {
                        out(p.mirror());
                        out(p);
                    }
                }
            }
        }
    }
}

/// F3: castling. K e1 with R a1 and/or R h1 and every subset of the rights they allow, k
/// anywhere, one black piece anywhere, optionally one white knight on b1..g1 as a blocker;
/// both sides to move; plus the colour mirror. unit = rook configuration (0: h1, 1: a1, 2: both) * 64 + black king square.
fn gen_f3(unit: u32, out: &mut dyn FnMut(Pos)) {
    let bk_only = (unit % 64) as usize;
    let unit = unit / 64;
    for bk in bk_only..=bk_only {
        for x in 0..64usize {
            for kind in NON_KING {
                for blocker in [usize::MAX, 1, 2, 3, 5, 6] {
                    let mut p = Pos::empty();
                    p.sq[4] = Some((Side::W, Kind::K));
                    if unit != 1 {
                        p.sq[7] = Some((Side::W, Kind::R));
                    }
                    if unit != 0 {
                        p.sq[0] = Some((Side::W, Kind::R));
                    }
                    if blocker != usize::MAX {
                        if p.sq[blocker].is_some() {
                            continue;
                        }
                        p.sq[blocker] = Some((Side::W, Kind::N));
                    }
                    if p.sq[bk].is_some() {
                        continue;
                    }
                    p.sq[bk] = Some((Side::B, Kind::K));
                    if p.sq[x].is_some() {
                        continue;
                    }
                    p.sq[x] = Some((Side::B, kind));
                    emit_valid(p, true, true, out);
                }
            }
        }
    }
}

/// F4: promotion. White pawn on the seventh, K and k anywhere, one black piece on the eighth
/// rank (a rook at home with black king e8 gets its right in every subset); white to move and
/// black to move; plus the colour mirror. unit = pawn file * 64 + white king square.
fn gen_f4(unit: u32, out: &mut dyn FnMut(Pos)) {
    let wk_only = (unit % 64) as usize;
    let unit = unit / 64;
    let pawn = sq_at(unit as i32, 6).unwrap() as usize;
    for wk in wk_only..=wk_only {
        for bk in 0..64usize {
            for x in 56..64usize {
                for kind in [Kind::N, Kind::B, Kind::R, Kind::Q] {
                    let mut p = Pos::empty();
                    p.sq[pawn] = Some((Side::W, Kind::P));
                    if p.sq[wk].is_some() {
                        continue;
                    }
                    p.sq[wk] = Some((Side::W, Kind::K));
                    if p.sq[bk].is_some() {
                        continue;
                    }
                    p.sq[bk] = Some((Side::B, Kind::K));
                    if p.sq[x].is_some() {
                        continue;
                    }
                    p.sq[x] = Some((Side::B, kind));
                    emit_valid(p, true, true, out);
                }
            }
        }
    }
}

/// F5: pins x double checks. White K on a fixed square, k on a fixed far square, two black
/// attackers (Q/R/B/N) and one white defender (Q/R/B/N/P) anywhere; white to move; plus the
/// colour mirror. unit = (king square index 0..3) * 64 + first attacker square.
fn gen_f5(unit: u32, out: &mut dyn FnMut(Pos)) {
    const KINGS: [(usize, usize); 3] = [(4, 62), (28, 63), (0, 47)];
    let (wk, bk) = KINGS[(unit / 64) as usize];
    let a1 = (unit % 64) as usize;
    if a1 == wk || a1 == bk {
        return;
    }
    for k1 in [Kind::Q, Kind::R, Kind::B, Kind::N] {
        for a2 in (a1 + 1)..64usize {
            if a2 == wk || a2 == bk {
                continue;
            }
            for k2 in [Kind::Q, Kind::R, Kind::B, Kind::N] {
                for d in 0..64usize {
                    if d == wk || d == bk || d == a1 || d == a2 {
                        continue;
                    }
                    for kd in NON_KING {
                        let mut p = Pos::empty();
                        p.sq[wk] = Some((Side::W, Kind::K));
                        p.sq[bk] = Some((Side::B, Kind::K));
                        p.sq[a1] = Some((Side::B, k1));
                        p.sq[a2] = Some((Side::B, k2));
                        p.sq[d] = Some((Side::W, kd));
                        p.stm = Side::W;
                        if p.is_valid() {
                            out(p.mirror());
                            out(p);
                        }
                    }
                }
            }
        }
    }
}

/// F6: checks by a pawn combined with everything else. White king on one of five squares,
/// a black pawn on either square from which a pawn attacks that king, one more black piece
/// (Q/R/B/N/P) anywhere, one white defender (Q/R/B/N/P) anywhere; white to move; plus the colour
/// mirror. Covers pawn + slider / pawn + knight double checks, capturing the checking pawn with
/// a pinned or unpinned piece, and en-passant-free pawn-check evasions.
/// unit = (king index 0..5) * 64 + second attacker square.
fn gen_f6(unit: u32, out: &mut dyn FnMut(Pos)) {
    const KINGS: [(usize, usize); 5] = [(28, 63), (24, 63), (39, 56), (4, 62), (52, 0)];
    let (wk, bk) = KINGS[(unit / 64) as usize];
    let a2 = (unit % 64) as usize;
    if a2 == wk || a2 == bk {
        return;
    }
    let kf = (wk % 8) as i32;
    let kr = (wk / 8) as i32;
    for df in [-1, 1] {
        let pawn = match sq_at(kf + df, kr + 1) {
            Some(s) => s as usize,
            None => continue,
        };
        if pawn == a2 || pawn == bk || pawn >= 56 {
            continue;
        }
        for k2 in NON_KING {
            for d in 0..64usize {
                if d == wk || d == bk || d == pawn || d == a2 {
                    continue;
                }
                for kd in NON_KING {
                    let mut p = Pos::empty();
                    p.sq[wk] = Some((Side::W, Kind::K));
                    p.sq[bk] = Some((Side::B, Kind::K));
                    p.sq[pawn] = Some((Side::B, Kind::P));
                    p.sq[a2] = Some((Side::B, k2));
                    p.sq[d] = Some((Side::W, kd));
                    p.stm = Side::W;
                    if p.is_valid() {
                        out(p.mirror());
                        out(p);
                    }
                }
            }
        }
    }
}

fn span(outer: Vec<u32>) -> Vec<u32> {
    outer.iter().flat_map(|o| (0..64).map(move |i| o * 64 + i)).collect()
}

pub fn classes(tier: &str) -> Vec<Class> {
    let thorough = tier == "thorough";
    let mut v = vec![
        Class {
            name: "F1",
            description: "K, k + one piece of any kind/colour anywhere; both sides to move; every consistent castling/en-passant decoration (quick: the complete sub-class with the white king on a1,e1,b2,d4,e5,e8,h8)",
            units: span(if thorough { (0..64).collect() } else { vec![0, 4, 9, 27, 36, 60, 63] }),
            gen: gen_f1,
        },
        Class {
            name: "F2",
            description: "en passant: pawn on its 5th rank, enemy pawn beside it with the target set, K, k and one enemy Q/R/B/N anywhere; both colours (quick: the complete sub-class with the capturer on d5 or e5: units d5xe6, d5xc6... i.e. outer units 6,7,9)",
            units: span(if thorough { (0..16).collect() } else { vec![6, 7, 9] }),
            gen: gen_f2,
        },
        Class {
            name: "F3",
            description: "castling: K e1 + R a1/h1 with every rights subset, k and one enemy piece anywhere, optional blocker on b1..g1; both sides to move; both colours",
            units: span(vec![0, 1, 2]),
            gen: gen_f3,
        },
        Class {
            name: "F4",
            description: "promotion: pawn on the 7th, K and k anywhere, one enemy piece on the 8th (rook at home with rights subsets); both sides to move; both colours (quick: pawn on a7 or e7)",
            units: span(if thorough { (0..8).collect() } else { vec![0, 4] }),
            gen: gen_f4,
        },
    ];
    v.push(Class {
        name: "F6",
        description: "pawn checks: K on e4/a4/h5/e1/e7, a black pawn on a square attacking it, one more black piece and one white defender (Q/R/B/N/P) anywhere; white to move; both colours",
        units: span(vec![0, 1, 2, 3, 4]),
        gen: gen_f6,
    });
    if !thorough {
        // the complete sub-class of F5 with the kings on e4/h8 and the first attacker within two
        // squares of the white king
        let near: Vec<u32> = (0..64u32).filter(|s| ((*s % 8) as i32 - 4).abs() <= 2 && ((*s / 8) as i32 - 3).abs() <= 2 && *s != 28).map(|s| 64 + s).collect();
        v.push(Class {
            name: "F5",
            description: "pins x double checks (quick: kings on e4/h8, first attacker within two squares of the white king): two enemy attackers (Q/R/B/N) and one own defender anywhere; both colours",
            units: near,
            gen: gen_f5,
        });
    }
    if thorough {
        v.push(Class {
            name: "F5",
            description: "pins x double checks: K and k fixed (3 set-ups), two enemy attackers and one own defender anywhere; both colours",
            units: (0..192).collect(),
            gen: gen_f5,
        });
    }
    v
}
