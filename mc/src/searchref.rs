//! Reference values for the search properties (C05, C06, C08, C09).
//!
//! V(s, 0) = q(s), the subject's own quiescence value with the full window (hook
//! `verif_quiesce`, run under the node clock with a node cap);
//! V(s, k) = terminal value if s has no legal move (k >= 1), else max over successors of
//! -V(s', k-1). Plain recursion with memoisation: no pruning, no ordering, no window.
//! Successors are the subject's own generate_moves/clone_with_move (C01/C02 check those).

use crate::board::Board;
use crate::eng::{self, guard, EKey};
use crate::move_gen::MoveGenerator;
use crate::moves::Move;
use crate::search::Searcher;
use std::cell::RefCell;
use std::collections::HashMap;
use std::sync::atomic::{AtomicU64, Ordering};
use std::sync::Mutex;
use std::time::Duration;

pub const WINDOW: i32 = 32767;
/// Same magnitude as the subject's CHECKMATE_SCORE; only ever compared as won/lost.
pub const MATE: i32 = i32::MAX - 1000;

#[derive(Clone, Copy, PartialEq, Eq, Debug)]
pub enum Class {
    Lost,
    Exact(i32),
    Won,
}

pub fn classify(v: i32) -> Class {
    if v >= WINDOW {
        Class::Won
    } else if v <= -WINDOW {
        Class::Lost
    } else {
        Class::Exact(v)
    }
}

const SHARDS: usize = 256;

pub struct RefCache {
    q: Vec<Mutex<HashMap<EKey, Option<i32>>>>,
    v: Vec<Mutex<HashMap<(EKey, u8), Option<i32>>>>,
    pub q_cap: u64,
    pub q_calls: AtomicU64,
    pub q_nodes: AtomicU64,
    pub q_excluded: AtomicU64,
    pub v_states: AtomicU64,
}

fn shard(k: &EKey) -> usize {
    let h = k.pieces.iter().fold(k.colors[0] ^ k.colors[1].rotate_left(7), |a, b| (a ^ b).wrapping_mul(0x9E3779B97F4A7C15));
    ((h >> 32) as usize ^ k.stm as usize ^ ((k.ep as usize) << 3) ^ ((k.castle as usize) << 1)) % SHARDS
}

thread_local! {
    /// One searcher per worker thread for quiescence values. Quiescence reads no cached state
    /// (no transposition table, no history), so reusing it does not couple the leaves.
    static QSEARCHER: RefCell<Option<Searcher>> = const { RefCell::new(None) };
}

impl RefCache {
    pub fn new(q_cap: u64) -> RefCache {
        RefCache {
            q: (0..SHARDS).map(|_| Mutex::new(HashMap::new())).collect(),
            v: (0..SHARDS).map(|_| Mutex::new(HashMap::new())).collect(),
            q_cap,
            q_calls: AtomicU64::new(0),
            q_nodes: AtomicU64::new(0),
            q_excluded: AtomicU64::new(0),
            v_states: AtomicU64::new(0),
        }
    }

    /// q(s): the subject's full-window quiescence value, or None if the node cap was hit (the
    /// quiescence tree is too large or infinite: outside the properties' quantifier).
    pub fn q(&self, b: &Board) -> Option<i32> {
        let k = eng::key_of(b);
        let sh = shard(&k);
        if let Some(v) = self.q[sh].lock().unwrap().get(&k) {
            return *v;
        }
        let cap = self.q_cap;
        let r = guard(|| {
            QSEARCHER.with(|s| {
                let mut s = s.borrow_mut();
                if s.is_none() {
                    *s = Some(Searcher::new());
                }
                let s = s.as_mut().unwrap();
                crate::timer::verif::set_node_clock(Some(1));
                let v = s.verif_quiesce(b, Some(Duration::from_millis(cap)));
                let cut = crate::timer::verif::first_stop().is_some();
                let nodes = s.verif_nodes();
                (v, cut, nodes)
            })
        });
        let val = match r {
            Ok((v, false, nodes)) => {
                self.q_nodes.fetch_add(nodes, Ordering::Relaxed);
                Some(v)
            }
            Ok((_, true, nodes)) => {
                self.q_nodes.fetch_add(nodes, Ordering::Relaxed);
                self.q_excluded.fetch_add(1, Ordering::Relaxed);
                None
            }
            Err(_) => {
                // a panic inside quiescence: drop the (possibly inconsistent) searcher
                QSEARCHER.with(|s| *s.borrow_mut() = None);
                self.q_excluded.fetch_add(1, Ordering::Relaxed);
                None
            }
        };
        self.q_calls.fetch_add(1, Ordering::Relaxed);
        self.q[sh].lock().unwrap().insert(k, val);
        val
    }

    /// V(s, k); None if any leaf below is excluded.
    pub fn v(&self, mg: &MoveGenerator, b: &Board, k: u8) -> Option<i32> {
        if k == 0 {
            return self.q(b);
        }
        let key = eng::key_of(b);
        let sh = shard(&key);
        if let Some(v) = self.v[sh].lock().unwrap().get(&(key, k)) {
            return *v;
        }
        let moves = mg.generate_moves(b);
        let val = if moves.is_empty() {
            if mg.is_in_check(b) {
                Some(-MATE + k as i32)
            } else {
                Some(0)
            }
        } else {
            let mut best: Option<i32> = Some(i32::MIN);
            for m in &moves {
                let nb = b.clone_with_move(m);
                match self.v(mg, &nb, k - 1) {
                    Some(c) => {
                        if let Some(bv) = best {
                            best = Some(bv.max(-c));
                        }
                    }
                    None => {
                        best = None;
                        // keep going is pointless for the value, but fills the cache for siblings; stop
                        break;
                    }
                }
            }
            best
        };
        self.v_states.fetch_add(1, Ordering::Relaxed);
        self.v[sh].lock().unwrap().insert((key, k), val);
        val
    }

    /// Value of playing `m` in `b` with k plies in total: -V(b.m, k-1).
    pub fn move_value(&self, mg: &MoveGenerator, b: &Board, m: &Move, k: u8) -> Option<i32> {
        let nb = b.clone_with_move(m);
        self.v(mg, &nb, k - 1).map(|c| -c)
    }
}

/// Does the subject's (score, move) agree with the reference value for (b, k)?
/// Err(text) describes the disagreement.
pub fn compare(cache: &RefCache, mg: &MoveGenerator, b: &Board, k: u8, score: i32, mv: Option<Move>) -> Result<Option<Class>, String> {
    let want = match cache.v(mg, b, k) {
        Some(v) => v,
        None => return Ok(None),
    };
    let wc = classify(want);
    let gc = classify(score);
    if wc != gc {
        return Err(format!("score {} ({:?}) but the unpruned minimax value is {} ({:?})", score, gc, want, wc));
    }
    let moves = mg.generate_moves(b);
    if moves.is_empty() {
        if mv.is_some() {
            return Err(format!("returned move {:?} in a position without legal moves", mv.map(|m| m.to_algebraic())));
        }
        return Ok(Some(wc));
    }
    let m = match mv {
        Some(m) => m,
        None => return Err("no move returned although legal moves exist".to_string()),
    };
    if !moves.contains(&m) {
        return Err(format!("returned move {} is not among the generated legal moves", m.to_algebraic()));
    }
    let mval = match cache.move_value(mg, b, &m, k) {
        Some(v) => v,
        None => return Ok(None),
    };
    let ok = match wc {
        Class::Lost => true, // every move attains "lost"
        Class::Won => classify(mval) == Class::Won,
        Class::Exact(v) => mval == v,
    };
    if !ok {
        return Err(format!("returned move {} is worth {} but the position is worth {} ({:?})", m.to_algebraic(), mval, want, wc));
    }
    Ok(Some(wc))
}
