//! CPU time of a thread or of a child process (Linux). Every emergency horizon of the harness is
//! expressed in CPU time actually consumed by the code under test, so that a busy machine (other
//! checks running, an overloaded host) can never turn into a verdict: a call that has not burnt
//! its CPU horizon is merely waiting for the scheduler.
use std::time::Duration;

#[repr(C)]
struct Timespec {
    tv_sec: i64,
    tv_nsec: i64,
}

extern "C" {
    fn clock_gettime(clk: i32, ts: *mut Timespec) -> i32;
    fn pthread_self() -> usize;
    fn pthread_getcpuclockid(thread: usize, clk: *mut i32) -> i32;
}

const CLOCK_THREAD_CPUTIME_ID: i32 = 3;

fn read(clk: i32) -> Option<Duration> {
    let mut ts = Timespec { tv_sec: 0, tv_nsec: 0 };
    let r = unsafe { clock_gettime(clk, &mut ts) };
    if r != 0 {
        return None;
    }
    Some(Duration::new(ts.tv_sec as u64, ts.tv_nsec as u32))
}

/// CPU time consumed so far by the calling thread.
pub fn thread_cpu() -> Duration {
    read(CLOCK_THREAD_CPUTIME_ID).unwrap_or(Duration::ZERO)
}

/// A handle through which another thread can read the calling thread's CPU time.
#[derive(Clone, Copy, Debug)]
pub struct ThreadClock(i32);

pub fn my_clock() -> Option<ThreadClock> {
    let mut clk = 0i32;
    let r = unsafe { pthread_getcpuclockid(pthread_self(), &mut clk) };
    if r == 0 {
        Some(ThreadClock(clk))
    } else {
        None
    }
}

impl ThreadClock {
    /// None once the thread has ended.
    pub fn cpu(&self) -> Option<Duration> {
        read(self.0)
    }
}

/// (CPU time consumed by the process so far, scheduler state letter) from /proc/<pid>/stat.
pub fn process_cpu(pid: u32) -> Option<(Duration, char)> {
    let s = std::fs::read_to_string(format!("/proc/{}/stat", pid)).ok()?;
    // the command name is in parentheses and may contain spaces: fields start after the last ')'
    let rest = &s[s.rfind(')')? + 1..];
    let f: Vec<&str> = rest.split_whitespace().collect();
    let state = f.first()?.chars().next()?;
    // rest[0] is field 3 (state); utime is field 14, stime field 15
    let utime: u64 = f.get(11)?.parse().ok()?;
    let stime: u64 = f.get(12)?.parse().ok()?;
    // USER_HZ is 100 on every Linux this harness runs on
    Some((Duration::from_millis((utime + stime) * 10), state))
}
