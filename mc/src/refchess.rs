//! Independent reference model of the rules of chess.
//!
//! Deliberately boring and deliberately unlike the subject: a 64-entry mailbox, explicit
//! (file, rank) arithmetic with bounds checks, attacks found by walking rays and leaper
//! offsets, and "legal = play it on a copy, then the mover's king is not attacked".
//! No bitboards, no tables, no code shared with /repo.
//!
//! Squares: a1 = 0, b1 = 1, ..., h1 = 7, a2 = 8, ..., h8 = 63 (rank * 8 + file).

use std::fmt::Write as _;

#[derive(Clone, Copy, PartialEq, Eq, Hash, Debug, PartialOrd, Ord)]
pub enum Kind {
    P,
    N,
    B,
    R,
    Q,
    K,
}

pub const KINDS: [Kind; 6] = [Kind::P, Kind::N, Kind::B, Kind::R, Kind::Q, Kind::K];
pub const PROMOS: [Kind; 4] = [Kind::N, Kind::B, Kind::R, Kind::Q];

#[derive(Clone, Copy, PartialEq, Eq, Hash, Debug, PartialOrd, Ord)]
pub enum Side {
    W,
    B,
}

impl Side {
    pub fn other(self) -> Side {
        match self {
            Side::W => Side::B,
            Side::B => Side::W,
        }
    }
}

pub type Cell = Option<(Side, Kind)>;

/// Castling rights are indexed K, Q, k, q.
pub const WK: usize = 0;
pub const WQ: usize = 1;
pub const BK: usize = 2;
pub const BQ: usize = 3;

#[derive(Clone, PartialEq, Eq, Hash, Debug)]
pub struct Pos {
    pub sq: [Cell; 64],
    pub stm: Side,
    pub castle: [bool; 4],
    pub ep: Option<u8>,
}

#[derive(Clone, Copy, PartialEq, Eq, Hash, Debug, PartialOrd, Ord)]
pub struct Mv {
    pub from: u8,
    pub to: u8,
    pub promo: Option<Kind>,
}

pub fn file_of(s: u8) -> i32 {
    (s % 8) as i32
}
pub fn rank_of(s: u8) -> i32 {
    (s / 8) as i32
}
pub fn sq_at(file: i32, rank: i32) -> Option<u8> {
    if (0..8).contains(&file) && (0..8).contains(&rank) {
        Some((rank * 8 + file) as u8)
    } else {
        None
    }
}

pub fn sq_name(s: u8) -> String {
    let mut t = String::new();
    t.push((b'a' + (s % 8)) as char);
    t.push((b'1' + (s / 8)) as char);
    t
}

pub fn parse_sq(t: &str) -> Option<u8> {
    let b = t.as_bytes();
    if b.len() != 2 {
        return None;
    }
    let f = b[0].wrapping_sub(b'a');
    let r = b[1].wrapping_sub(b'1');
    if f < 8 && r < 8 {
        Some(r * 8 + f)
    } else {
        None
    }
}

pub fn kind_letter(k: Kind) -> char {
    match k {
        Kind::P => 'p',
        Kind::N => 'n',
        Kind::B => 'b',
        Kind::R => 'r',
        Kind::Q => 'q',
        Kind::K => 'k',
    }
}

impl Mv {
    pub fn uci(&self) -> String {
        let mut t = format!("{}{}", sq_name(self.from), sq_name(self.to));
        if let Some(k) = self.promo {
            t.push(kind_letter(k));
        }
        t
    }

    pub fn parse(t: &str) -> Option<Mv> {
        if t.len() < 4 || t.len() > 5 || !t.is_ascii() {
            return None;
        }
        let from = parse_sq(&t[0..2])?;
        let to = parse_sq(&t[2..4])?;
        let promo = if t.len() == 5 {
            Some(match &t[4..5] {
                "n" => Kind::N,
                "b" => Kind::B,
                "r" => Kind::R,
                "q" => Kind::Q,
                _ => return None,
            })
        } else {
            None
        };
        Some(Mv { from, to, promo })
    }
}

const KNIGHT_STEPS: [(i32, i32); 8] = [
    (1, 2),
    (2, 1),
    (2, -1),
    (1, -2),
    (-1, -2),
    (-2, -1),
    (-2, 1),
    (-1, 2),
];
const KING_STEPS: [(i32, i32); 8] = [
    (1, 0),
    (1, 1),
    (0, 1),
    (-1, 1),
    (-1, 0),
    (-1, -1),
    (0, -1),
    (1, -1),
];
const ROOK_DIRS: [(i32, i32); 4] = [(1, 0), (0, 1), (-1, 0), (0, -1)];
const BISHOP_DIRS: [(i32, i32); 4] = [(1, 1), (-1, 1), (-1, -1), (1, -1)];

pub const START_FEN: &str = "rnbqkbnr/pppppppp/8/8/8/8/PPPPPPPP/RNBQKBNR w KQkq - 0 1";

impl Pos {
    pub fn empty() -> Pos {
        Pos {
            sq: [None; 64],
            stm: Side::W,
            castle: [false; 4],
            ep: None,
        }
    }

    pub fn start() -> Pos {
        Pos::from_fen(START_FEN).unwrap()
    }

    /// Parses the first four FEN fields (the counters, if present, are ignored).
    pub fn from_fen(fen: &str) -> Result<Pos, String> {
        let parts: Vec<&str> = fen.split_whitespace().collect();
        if parts.len() < 4 {
            return Err(format!("FEN needs at least 4 fields: {:?}", fen));
        }
        let mut p = Pos::empty();
        let ranks: Vec<&str> = parts[0].split('/').collect();
        if ranks.len() != 8 {
            return Err("FEN placement needs 8 ranks".into());
        }
        for (i, row) in ranks.iter().enumerate() {
            let rank = 7 - i as i32;
            let mut file = 0i32;
            for c in row.chars() {
                if let Some(d) = c.to_digit(10) {
                    file += d as i32;
                } else {
                    let side = if c.is_ascii_uppercase() { Side::W } else { Side::B };
                    let kind = match c.to_ascii_lowercase() {
                        'p' => Kind::P,
                        'n' => Kind::N,
                        'b' => Kind::B,
                        'r' => Kind::R,
                        'q' => Kind::Q,
                        'k' => Kind::K,
                        _ => return Err(format!("bad piece char {:?}", c)),
                    };
                    let s = sq_at(file, rank).ok_or("FEN rank overflow")?;
                    p.sq[s as usize] = Some((side, kind));
                    file += 1;
                }
            }
            if file != 8 {
                return Err(format!("FEN rank {:?} does not have 8 files", row));
            }
        }
        p.stm = match parts[1] {
            "w" => Side::W,
            "b" => Side::B,
            _ => return Err("bad side to move".into()),
        };
        if parts[2] != "-" {
            for c in parts[2].chars() {
                match c {
                    'K' => p.castle[WK] = true,
                    'Q' => p.castle[WQ] = true,
                    'k' => p.castle[BK] = true,
                    'q' => p.castle[BQ] = true,
                    _ => return Err("bad castling field".into()),
                }
            }
        }
        p.ep = if parts[3] == "-" {
            None
        } else {
            Some(parse_sq(parts[3]).ok_or("bad en-passant field")?)
        };
        Ok(p)
    }

    pub fn placement_fen(&self) -> String {
        let mut t = String::new();
        for rank in (0..8).rev() {
            let mut gap = 0;
            for file in 0..8 {
                match self.sq[(rank * 8 + file) as usize] {
                    None => gap += 1,
                    Some((side, kind)) => {
                        if gap > 0 {
                            write!(t, "{}", gap).unwrap();
                            gap = 0;
                        }
                        let c = kind_letter(kind);
                        t.push(if side == Side::W { c.to_ascii_uppercase() } else { c });
                    }
                }
            }
            if gap > 0 {
                write!(t, "{}", gap).unwrap();
            }
            if rank > 0 {
                t.push('/');
            }
        }
        t
    }

    pub fn castle_field(&self) -> String {
        let mut t = String::new();
        for (i, c) in ['K', 'Q', 'k', 'q'].iter().enumerate() {
            if self.castle[i] {
                t.push(*c);
            }
        }
        if t.is_empty() {
            t.push('-');
        }
        t
    }

    /// Four-field FEN (placement, side, castling, en passant).
    pub fn fen4(&self) -> String {
        format!(
            "{} {} {} {}",
            self.placement_fen(),
            if self.stm == Side::W { "w" } else { "b" },
            self.castle_field(),
            match self.ep {
                Some(s) => sq_name(s),
                None => "-".to_string(),
            }
        )
    }

    pub fn fen(&self, halfmove: u32, fullmove: u32) -> String {
        format!("{} {} {}", self.fen4(), halfmove, fullmove)
    }

    pub fn king_sq(&self, side: Side) -> Option<u8> {
        (0..64u8).find(|&s| self.sq[s as usize] == Some((side, Kind::K)))
    }

    pub fn count(&self, side: Side, kind: Kind) -> usize {
        self.sq.iter().filter(|c| **c == Some((side, kind))).count()
    }

    /// Is `target` attacked by any piece of `by`? (Occupancy is taken as it stands.)
    pub fn attacked(&self, target: u8, by: Side) -> bool {
        let f = file_of(target);
        let r = rank_of(target);
        // pawns: a white pawn on (f +- 1, r - 1) attacks (f, r); black from r + 1
        let pr = if by == Side::W { r - 1 } else { r + 1 };
        for df in [-1, 1] {
            if let Some(s) = sq_at(f + df, pr) {
                if self.sq[s as usize] == Some((by, Kind::P)) {
                    return true;
                }
            }
        }
        for (df, dr) in KNIGHT_STEPS {
            if let Some(s) = sq_at(f + df, r + dr) {
                if self.sq[s as usize] == Some((by, Kind::N)) {
                    return true;
                }
            }
        }
        for (df, dr) in KING_STEPS {
            if let Some(s) = sq_at(f + df, r + dr) {
                if self.sq[s as usize] == Some((by, Kind::K)) {
                    return true;
                }
            }
        }
        for (dirs, slider) in [(ROOK_DIRS, Kind::R), (BISHOP_DIRS, Kind::B)] {
            for (df, dr) in dirs {
                let (mut cf, mut cr) = (f + df, r + dr);
                while let Some(s) = sq_at(cf, cr) {
                    if let Some((side, kind)) = self.sq[s as usize] {
                        if side == by && (kind == slider || kind == Kind::Q) {
                            return true;
                        }
                        break;
                    }
                    cf += df;
                    cr += dr;
                }
            }
        }
        false
    }

    pub fn in_check(&self, side: Side) -> bool {
        match self.king_sq(side) {
            Some(k) => self.attacked(k, side.other()),
            None => false,
        }
    }

    /// Pseudo-legal moves of the side to move (castling is generated fully legal).
    pub fn pseudo_moves(&self) -> Vec<Mv> {
        let us = self.stm;
        let them = us.other();
        let mut out = Vec::new();
        for from in 0..64u8 {
            let (side, kind) = match self.sq[from as usize] {
                Some(x) => x,
                None => continue,
            };
            if side != us {
                continue;
            }
            let f = file_of(from);
            let r = rank_of(from);
            match kind {
                Kind::P => {
                    let dir = if us == Side::W { 1 } else { -1 };
                    let start_rank = if us == Side::W { 1 } else { 6 };
                    let last_rank = if us == Side::W { 7 } else { 0 };
                    let mut push = |to: u8, out: &mut Vec<Mv>| {
                        if rank_of(to) == last_rank {
                            for k in PROMOS {
                                out.push(Mv { from, to, promo: Some(k) });
                            }
                        } else {
                            out.push(Mv { from, to, promo: None });
                        }
                    };
                    if let Some(one) = sq_at(f, r + dir) {
                        if self.sq[one as usize].is_none() {
                            push(one, &mut out);
                            if r == start_rank {
                                if let Some(two) = sq_at(f, r + 2 * dir) {
                                    if self.sq[two as usize].is_none() {
                                        out.push(Mv { from, to: two, promo: None });
                                    }
                                }
                            }
                        }
                    }
                    for df in [-1, 1] {
                        if let Some(to) = sq_at(f + df, r + dir) {
                            match self.sq[to as usize] {
                                Some((s, _)) if s == them => push(to, &mut out),
                                None if self.ep == Some(to) => {
                                    // en passant: the pawn to be taken stands beside the capturer
                                    if let Some(victim) = sq_at(f + df, r) {
                                        if self.sq[victim as usize] == Some((them, Kind::P)) {
                                            out.push(Mv { from, to, promo: None });
                                        }
                                    }
                                }
                                _ => {}
                            }
                        }
                    }
                }
                Kind::N | Kind::K => {
                    let steps = if kind == Kind::N { KNIGHT_STEPS } else { KING_STEPS };
                    for (df, dr) in steps {
                        if let Some(to) = sq_at(f + df, r + dr) {
                            match self.sq[to as usize] {
                                Some((s, _)) if s == us => {}
                                _ => out.push(Mv { from, to, promo: None }),
                            }
                        }
                    }
                }
                Kind::B | Kind::R | Kind::Q => {
                    let mut dirs: Vec<(i32, i32)> = Vec::new();
                    if kind != Kind::B {
                        dirs.extend(ROOK_DIRS);
                    }
                    if kind != Kind::R {
                        dirs.extend(BISHOP_DIRS);
                    }
                    for (df, dr) in dirs {
                        let (mut cf, mut cr) = (f + df, r + dr);
                        while let Some(to) = sq_at(cf, cr) {
                            match self.sq[to as usize] {
                                None => out.push(Mv { from, to, promo: None }),
                                Some((s, _)) => {
                                    if s == them {
                                        out.push(Mv { from, to, promo: None });
                                    }
                                    break;
                                }
                            }
                            cf += df;
                            cr += dr;
                        }
                    }
                }
            }
        }
        // Castling (FIDE 3.8.2): king and rook on their original squares with the right
        // still held, all squares between them empty, the king not in check, and the king
        // neither crossing nor landing on an attacked square.
        let home = if us == Side::W { 0 } else { 7 };
        let (ks, qs) = if us == Side::W { (WK, WQ) } else { (BK, BQ) };
        let e = sq_at(4, home).unwrap();
        if self.sq[e as usize] == Some((us, Kind::K)) && !self.attacked(e, them) {
            if self.castle[ks] && self.sq[sq_at(7, home).unwrap() as usize] == Some((us, Kind::R)) {
                let f1 = sq_at(5, home).unwrap();
                let g1 = sq_at(6, home).unwrap();
                if self.sq[f1 as usize].is_none()
                    && self.sq[g1 as usize].is_none()
                    && !self.attacked(f1, them)
                    && !self.attacked(g1, them)
                {
                    out.push(Mv { from: e, to: g1, promo: None });
                }
            }
            if self.castle[qs] && self.sq[sq_at(0, home).unwrap() as usize] == Some((us, Kind::R)) {
                let d1 = sq_at(3, home).unwrap();
                let c1 = sq_at(2, home).unwrap();
                let b1 = sq_at(1, home).unwrap();
                if self.sq[d1 as usize].is_none()
                    && self.sq[c1 as usize].is_none()
                    && self.sq[b1 as usize].is_none()
                    && !self.attacked(d1, them)
                    && !self.attacked(c1, them)
                {
                    out.push(Mv { from: e, to: c1, promo: None });
                }
            }
        }
        out
    }

    /// Plays a (pseudo-)legal move and returns the successor position.
    pub fn make(&self, m: Mv) -> Pos {
        let mut n = self.clone();
        let us = self.stm;
        let (_, kind) = self.sq[m.from as usize].expect("make: no piece on from-square");
        let ff = file_of(m.from);
        let fr = rank_of(m.from);
        let tf = file_of(m.to);
        let tr = rank_of(m.to);

        n.sq[m.from as usize] = None;
        // en passant: a pawn moving diagonally onto an empty square takes the pawn beside it
        if kind == Kind::P && ff != tf && self.sq[m.to as usize].is_none() {
            let victim = sq_at(tf, fr).unwrap();
            n.sq[victim as usize] = None;
        }
        n.sq[m.to as usize] = Some((us, m.promo.unwrap_or(kind)));
        // castling: the king moves two files, the rook jumps over it
        if kind == Kind::K && (tf - ff).abs() == 2 {
            let (rook_from, rook_to) = if tf > ff { (7, 5) } else { (0, 3) };
            let rf = sq_at(rook_from, fr).unwrap();
            let rt = sq_at(rook_to, fr).unwrap();
            n.sq[rt as usize] = n.sq[rf as usize];
            n.sq[rf as usize] = None;
        }
        // rights: lost when the king moves, or when anything leaves or lands on a rook's home square
        if kind == Kind::K {
            if us == Side::W {
                n.castle[WK] = false;
                n.castle[WQ] = false;
            } else {
                n.castle[BK] = false;
                n.castle[BQ] = false;
            }
        }
        for s in [m.from, m.to] {
            match s {
                0 => n.castle[WQ] = false,
                7 => n.castle[WK] = false,
                56 => n.castle[BQ] = false,
                63 => n.castle[BK] = false,
                _ => {}
            }
        }
        // en-passant target: recorded after every double push (as FEN does)
        n.ep = if kind == Kind::P && (tr - fr).abs() == 2 {
            sq_at(ff, (fr + tr) / 2)
        } else {
            None
        };
        n.stm = us.other();
        n
    }

    pub fn legal_moves(&self) -> Vec<Mv> {
        let us = self.stm;
        self.pseudo_moves()
            .into_iter()
            .filter(|m| !self.make(*m).in_check(us))
            .collect()
    }

    pub fn is_capture(&self, m: Mv) -> bool {
        if self.sq[m.to as usize].is_some() {
            return true;
        }
        // en passant
        matches!(self.sq[m.from as usize], Some((_, Kind::P))) && file_of(m.from) != file_of(m.to)
    }

    pub fn gives_check(&self, m: Mv) -> bool {
        let n = self.make(m);
        n.in_check(n.stm)
    }

    /// Moves examined past the horizon when not in check: captures (incl. en passant),
    /// promotions, checks (direct or discovered).
    pub fn tactical_moves(&self) -> Vec<Mv> {
        self.legal_moves()
            .into_iter()
            .filter(|m| self.is_capture(*m) || m.promo.is_some() || self.gives_check(*m))
            .collect()
    }

    pub fn is_checkmate(&self) -> bool {
        self.in_check(self.stm) && self.legal_moves().is_empty()
    }

    /// The quantifier of the position properties: one king each, the side not to move is not
    /// in check, no pawns on the first/eighth rank, every castling flag has its king and rook at
    /// home, and an en-passant target is consistent with a double push just played.
    pub fn validity(&self) -> Result<(), &'static str> {
        if self.count(Side::W, Kind::K) != 1 || self.count(Side::B, Kind::K) != 1 {
            return Err("not exactly one king per side");
        }
        for s in (0..8u8).chain(56..64u8) {
            if matches!(self.sq[s as usize], Some((_, Kind::P))) {
                return Err("pawn on first or eighth rank");
            }
        }
        if self.in_check(self.stm.other()) {
            return Err("side not to move is in check");
        }
        let wk = self.sq[4] == Some((Side::W, Kind::K));
        let bk = self.sq[60] == Some((Side::B, Kind::K));
        if self.castle[WK] && !(wk && self.sq[7] == Some((Side::W, Kind::R))) {
            return Err("K flag without king e1 / rook h1");
        }
        if self.castle[WQ] && !(wk && self.sq[0] == Some((Side::W, Kind::R))) {
            return Err("Q flag without king e1 / rook a1");
        }
        if self.castle[BK] && !(bk && self.sq[63] == Some((Side::B, Kind::R))) {
            return Err("k flag without king e8 / rook h8");
        }
        if self.castle[BQ] && !(bk && self.sq[56] == Some((Side::B, Kind::R))) {
            return Err("q flag without king e8 / rook a8");
        }
        if let Some(t) = self.ep {
            let f = file_of(t);
            let r = rank_of(t);
            // white to move: black just played f7-f5, target on rank 6 (index 5)
            let (want_rank, pawn_rank, origin_rank, pusher) = if self.stm == Side::W {
                (5, 4, 6, Side::B)
            } else {
                (2, 3, 1, Side::W)
            };
            if r != want_rank {
                return Err("en-passant target on the wrong rank");
            }
            if self.sq[sq_at(f, pawn_rank).unwrap() as usize] != Some((pusher, Kind::P)) {
                return Err("en-passant target without the pushed pawn");
            }
            if self.sq[t as usize].is_some() || self.sq[sq_at(f, origin_rank).unwrap() as usize].is_some() {
                return Err("en-passant target or origin square occupied");
            }
        }
        Ok(())
    }

    pub fn is_valid(&self) -> bool {
        self.validity().is_ok()
    }

    /// Board flipped top to bottom with colours exchanged (and side to move, rights, target).
    pub fn mirror(&self) -> Pos {
        let mut n = Pos::empty();
        for s in 0..64u8 {
            if let Some((side, kind)) = self.sq[s as usize] {
                n.sq[(s ^ 56) as usize] = Some((side.other(), kind));
            }
        }
        n.stm = self.stm.other();
        n.castle = [self.castle[BK], self.castle[BQ], self.castle[WK], self.castle[WQ]];
        n.ep = self.ep.map(|s| s ^ 56);
        n
    }

    /// Same placement, other side to move (en-passant target dropped).
    pub fn swap_side(&self) -> Pos {
        let mut n = self.clone();
        n.stm = self.stm.other();
        n.ep = None;
        n
    }

    /// FIDE 9.2: same placement, same side to move, same castling rights, and the same
    /// en-passant capture possibilities. The target square only matters if a capture onto it
    /// is actually legal.
    pub fn repetition_key(&self) -> (String, Side, [bool; 4], Option<u8>) {
        let ep = match self.ep {
            Some(t) => {
                let can = self
                    .legal_moves()
                    .iter()
                    .any(|m| m.to == t && matches!(self.sq[m.from as usize], Some((_, Kind::P))) && file_of(m.from) != file_of(m.to));
                if can {
                    Some(t)
                } else {
                    None
                }
            }
            None => None,
        };
        (self.placement_fen(), self.stm, self.castle, ep)
    }

    pub fn perft(&self, depth: u32) -> u64 {
        if depth == 0 {
            return 1;
        }
        let moves = self.legal_moves();
        if depth == 1 {
            return moves.len() as u64;
        }
        moves.iter().map(|m| self.make(*m).perft(depth - 1)).sum()
    }
}

/// Published perft values (chessprogramming.org "Perft Results"), depth 1.. for the six
/// standard positions that the repository's own tests cite.
pub const PERFT_SUITE: [(&str, [u64; 5]); 6] = [
    (START_FEN, [20, 400, 8902, 197281, 4865609]),
    (
        "r3k2r/p1ppqpb1/bn2pnp1/3PN3/1p2P3/2N2Q1p/PPPBBPPP/R3K2R w KQkq - 0 1",
        [48, 2039, 97862, 4085603, 193690690],
    ),
    ("8/2p5/3p4/KP5r/1R3p1k/8/4P1P1/8 w - - 0 1", [14, 191, 2812, 43238, 674624]),
    (
        "r3k2r/Pppp1ppp/1b3nbN/nP6/BBP1P3/q4N2/Pp1P2PP/R2Q1RK1 w kq - 0 1",
        [6, 264, 9467, 422333, 15833292],
    ),
    (
        "rnbq1k1r/pp1Pbppp/2p5/8/2B5/8/PPP1NnPP/RNBQK2R w KQ - 1 8",
        [44, 1486, 62379, 2103487, 89941194],
    ),
    (
        "r4rk1/1pp1qppp/p1np1n2/2b1p1B1/2B1P1b1/P1NP1N2/1PP1QPPP/R4RK1 w - - 0 10",
        [46, 2079, 89890, 3894594, 164075551],
    ),
];

/// Self-validation of the model against the published values. A failure is a machinery
/// error, never a verdict about the subject.
pub fn self_test(depth: usize) -> Result<u64, String> {
    let mut total = 0;
    let results: Vec<Result<u64, String>> = crate::par::par_map(&PERFT_SUITE[..], |(fen, expect)| {
        let p = Pos::from_fen(fen)?;
        p.validity().map_err(|e| format!("{}: {}", fen, e))?;
        let mut sum = 0;
        for d in 1..=depth {
            let got = p.perft(d as u32);
            if got != expect[d - 1] {
                return Err(format!(
                    "refchess perft({}) of {:?} = {}, published value {}",
                    d,
                    fen,
                    got,
                    expect[d - 1]
                ));
            }
            sum += got;
        }
        Ok(sum)
    });
    for r in results {
        total += r?;
    }
    Ok(total)
}
