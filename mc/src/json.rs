//! A tiny JSON value + serializer (serde is not in the repository's lock file).
use std::fmt::Write as _;

#[derive(Clone, Debug)]
pub enum J {
    Null,
    Bool(bool),
    Int(i64),
    Num(f64),
    Str(String),
    Arr(Vec<J>),
    Obj(Vec<(String, J)>),
}

impl J {
    pub fn obj() -> J {
        J::Obj(Vec::new())
    }
    pub fn set(mut self, k: &str, v: impl Into<J>) -> J {
        self.put(k, v);
        self
    }
    pub fn put(&mut self, k: &str, v: impl Into<J>) {
        if let J::Obj(items) = self {
            let v = v.into();
            if let Some(slot) = items.iter_mut().find(|(kk, _)| kk == k) {
                slot.1 = v;
            } else {
                items.push((k.to_string(), v));
            }
        }
    }
    pub fn get(&self, k: &str) -> Option<&J> {
        if let J::Obj(items) = self {
            items.iter().find(|(kk, _)| kk == k).map(|(_, v)| v)
        } else {
            None
        }
    }
    pub fn get_int(&self, k: &str) -> i64 {
        match self.get(k) {
            Some(J::Int(i)) => *i,
            _ => 0,
        }
    }
    pub fn add_int(&mut self, k: &str, d: i64) {
        let cur = self.get_int(k);
        self.put(k, cur + d);
    }
    pub fn push(&mut self, v: impl Into<J>) {
        if let J::Arr(items) = self {
            items.push(v.into());
        }
    }
    pub fn to_string(&self) -> String {
        let mut s = String::new();
        self.write(&mut s, 0);
        s
    }
    fn write(&self, s: &mut String, ind: usize) {
        match self {
            J::Null => s.push_str("null"),
            J::Bool(b) => s.push_str(if *b { "true" } else { "false" }),
            J::Int(i) => write!(s, "{}", i).unwrap(),
            J::Num(f) => {
                if f.is_finite() {
                    write!(s, "{:.3}", f).unwrap()
                } else {
                    s.push_str("null")
                }
            }
            J::Str(t) => {
                s.push('"');
                for c in t.chars() {
                    match c {
                        '"' => s.push_str("\\\""),
                        '\\' => s.push_str("\\\\"),
                        '\n' => s.push_str("\\n"),
                        '\r' => s.push_str("\\r"),
                        '\t' => s.push_str("\\t"),
                        c if (c as u32) < 0x20 => write!(s, "\\u{:04x}", c as u32).unwrap(),
                        c => s.push(c),
                    }
                }
                s.push('"');
            }
            J::Arr(items) => {
                if items.is_empty() {
                    s.push_str("[]");
                    return;
                }
                let simple = items.iter().all(|i| !matches!(i, J::Arr(_) | J::Obj(_)));
                s.push('[');
                for (i, it) in items.iter().enumerate() {
                    if i > 0 {
                        s.push(',');
                    }
                    if !simple {
                        s.push('\n');
                        s.push_str(&" ".repeat(ind + 1));
                    } else if i > 0 {
                        s.push(' ');
                    }
                    it.write(s, ind + 1);
                }
                if !simple {
                    s.push('\n');
                    s.push_str(&" ".repeat(ind));
                }
                s.push(']');
            }
            J::Obj(items) => {
                if items.is_empty() {
                    s.push_str("{}");
                    return;
                }
                s.push('{');
                for (i, (k, v)) in items.iter().enumerate() {
                    if i > 0 {
                        s.push(',');
                    }
                    s.push('\n');
                    s.push_str(&" ".repeat(ind + 1));
                    J::Str(k.clone()).write(s, 0);
                    s.push_str(": ");
                    v.write(s, ind + 1);
                }
                s.push('\n');
                s.push_str(&" ".repeat(ind));
                s.push('}');
            }
        }
    }
}

impl From<bool> for J {
    fn from(v: bool) -> J {
        J::Bool(v)
    }
}
impl From<i64> for J {
    fn from(v: i64) -> J {
        J::Int(v)
    }
}
impl From<i32> for J {
    fn from(v: i32) -> J {
        J::Int(v as i64)
    }
}
impl From<u64> for J {
    fn from(v: u64) -> J {
        J::Int(v as i64)
    }
}
impl From<u32> for J {
    fn from(v: u32) -> J {
        J::Int(v as i64)
    }
}
impl From<usize> for J {
    fn from(v: usize) -> J {
        J::Int(v as i64)
    }
}
impl From<f64> for J {
    fn from(v: f64) -> J {
        J::Num(v)
    }
}
impl From<&str> for J {
    fn from(v: &str) -> J {
        J::Str(v.to_string())
    }
}
impl From<String> for J {
    fn from(v: String) -> J {
        J::Str(v)
    }
}
impl From<&String> for J {
    fn from(v: &String) -> J {
        J::Str(v.clone())
    }
}
impl<T: Into<J>> From<Vec<T>> for J {
    fn from(v: Vec<T>) -> J {
        J::Arr(v.into_iter().map(|x| x.into()).collect())
    }
}
impl<T: Into<J>> From<Option<T>> for J {
    fn from(v: Option<T>) -> J {
        match v {
            Some(x) => x.into(),
            None => J::Null,
        }
    }
}
impl From<u8> for J {
    fn from(v: u8) -> J {
        J::Int(v as i64)
    }
}
