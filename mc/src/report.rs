//! Collects what a run covered and what it found; serialised for the ./check runner.
use crate::json::J;
use std::sync::Mutex;
use std::time::Instant;

pub struct Violation {
    /// Canonical signature of the failing case (matched against KNOWN_FINDINGS.txt).
    pub sig: String,
    pub text: String,
    /// Arguments for `flounder-mc` that re-execute exactly this case.
    pub replay_args: Vec<String>,
    pub detail: J,
}

pub struct Report {
    pub property: &'static str,
    pub tier: String,
    pub seed: u64,
    pub start: Instant,
    pub violations: Mutex<Vec<Violation>>,
    pub violation_count: std::sync::atomic::AtomicUsize,
    pub caps: Mutex<Vec<String>>,
    pub max_violations: usize,
}

impl Report {
    pub fn new(property: &'static str, tier: &str, seed: u64) -> Report {
        Report {
            property,
            tier: tier.to_string(),
            seed,
            start: Instant::now(),
            violations: Mutex::new(Vec::new()),
            violation_count: std::sync::atomic::AtomicUsize::new(0),
            caps: Mutex::new(Vec::new()),
            max_violations: 25,
        }
    }

    pub fn violation(&self, sig: String, text: String, replay_args: Vec<String>, detail: J) {
        self.violation_count.fetch_add(1, std::sync::atomic::Ordering::Relaxed);
        let mut v = self.violations.lock().unwrap();
        if v.len() < self.max_violations && !v.iter().any(|x| x.sig == sig) {
            v.push(Violation { sig, text, replay_args, detail });
        }
    }

    /// True once enough violations are recorded that exploring further only costs time.
    pub fn saturated(&self) -> bool {
        self.violations.lock().unwrap().len() >= self.max_violations
    }

    pub fn cap(&self, what: String) {
        self.caps.lock().unwrap().push(what);
    }

    pub fn elapsed(&self) -> f64 {
        self.start.elapsed().as_secs_f64()
    }

    /// Writes the result file read by ./check.
    pub fn finish(&self, level: &str, coverage: J, assumptions: Vec<String>, out: &str) {
        let viols = self.violations.lock().unwrap();
        let mut arr = Vec::new();
        for v in viols.iter() {
            arr.push(
                J::obj()
                    .set("sig", v.sig.clone())
                    .set("text", v.text.clone())
                    .set("replay_args", v.replay_args.clone())
                    .set("detail", v.detail.clone()),
            );
        }
        let caps: Vec<String> = self.caps.lock().unwrap().clone();
        let mut coverage = coverage;
        if !caps.is_empty() {
            coverage.put("caps_hit", caps.clone());
            coverage.put("exhaustive", false);
        }
        let j = J::obj()
            .set("property_id", self.property)
            .set("tier", self.tier.clone())
            .set("seed", self.seed)
            .set("level", level)
            .set("coverage", coverage)
            .set("assumptions", assumptions)
            .set("wall_s", self.elapsed())
            .set("violations_total", self.violation_count.load(std::sync::atomic::Ordering::Relaxed))
            .set("violations", J::Arr(arr));
        std::fs::write(out, j.to_string()).unwrap_or_else(|e| {
            eprintln!("cannot write {}: {}", out, e);
            std::process::exit(2);
        });
    }
}
