//! C04: the position command reconstructs the exact game position.
//!
//! Histories of `position` commands are driven through the real command handler
//! (`Flounder::verif_handle_command`) and the board it leaves behind (`verif_board`) is
//! compared, raw bitboard by raw bitboard, with the position the rules model reaches from the
//! same start by the same UCI move strings.
//!
//! Enumerated:
//!  (a) from each start, EVERY legal move path of length <= d, each sent as one
//!      `position <start> moves ...` command;
//!  (b) for every state within two plies of the special roots (and of the (a) starts): its FEN
//!      with every reachable (halfmove, fullmove) counter pair of a grid that straddles 100 and
//!      255/256, sent as `position fen ...`;
//!  (c) every ordered pair over a set of position commands on one engine (the second must
//!      replace the first completely), and -- implicitly -- every command of (a) and (b) is run
//!      on a long-lived per-thread engine that has just processed other position commands;
//!  (d) every prefix of a few very long games (hundreds of plies, large counters).

use crate::board::Board;
use crate::eng::{self, guard, EKey};
use crate::json::J;
use crate::par::par_map_init;
use crate::refchess::{Kind, Mv, Pos, Side, START_FEN};
use crate::report::Report;
use crate::uci::Flounder;
use std::sync::atomic::{AtomicU64, Ordering};

/// (name, FEN or "startpos", path depth quick, path depth thorough)
const STARTS: &[(&str, &str, usize, usize)] = &[
    ("start position", "startpos", 3, 4),
    ("kiwipete (castling both sides, en passant after c7c5)", "r3k2r/p1ppqpb1/bn2pnp1/3PN3/1p2P3/2N2Q1p/PPPBBPPP/R3K2R w KQkq - 0 1", 2, 3),
    ("kiwipete, black to move (double pushes next to white pieces)", "r3k2r/p1ppqpb1/bn2pnp1/3PN3/1p2P3/2N2Q1p/PPPBBPPP/R3K2R b KQkq - 0 1", 2, 3),
    ("perft position 4 (promotions with capture, castling)", "r3k2r/Pppp1ppp/1b3nbN/nP6/BBP1P3/q4N2/Pp1P2PP/R2Q1RK1 w kq - 0 1", 2, 3),
    ("perft position 5 (promotion d7xc8, castling)", "rnbq1k1r/pp1Pbppp/2p5/8/2B5/8/PPP1NnPP/RNBQK2R w KQ - 1 8", 2, 3),
    ("perft position 3 (en passant, pins)", "8/2p5/3p4/KP5r/1R3p1k/8/4P1P1/8 w - - 0 1", 3, 4),
    ("en passant target in the FEN", "rnbqkbnr/pppp1ppp/8/8/4pP2/8/PPPPP1PP/RNBQKBNR b KQkq f3 0 2", 2, 3),
    ("all castling rights, open board", "r3k2r/8/8/8/8/8/8/R3K2R w KQkq - 0 1", 2, 4),
    ("promotion and under-promotion for both sides", "8/P4k2/8/8/3n4/8/5K1p/2B5 w - - 0 1", 3, 4),
    ("pieces that can move onto the square a double push skips (white pushes first)", "4k3/p1p2p1p/7R/1n6/1N6/7r/P1P2P1P/4K3 w - - 0 1", 2, 3),
    ("same, black pushes first", "4k3/p1p2p1p/7R/1n6/1N6/7r/P1P2P1P/4K3 b - - 0 1", 2, 3),
    ("rook next to a pawn about to double push", "4k3/p7/7R/8/8/8/8/4K3 b - - 0 1", 3, 4),
    ("promotion by capture onto a rook's home square", "r3k2r/1P4P1/8/8/8/8/1p4p1/R3K2R w KQkq - 0 1", 2, 3),
];

/// Counter pairs (halfmove clock, fullmove number). Only pairs a real game can reach are sent
/// for a given state (see `reachable_counters`).
const HALFMOVES: [u32; 10] = [0, 1, 49, 50, 99, 100, 101, 120, 149, 150];
const FULLMOVES: [u32; 9] = [1, 2, 76, 99, 255, 256, 300, 1000, 5949];

fn reachable_counters(p: &Pos) -> Vec<(u32, u32)> {
    let mut v = Vec::new();
    for &fm in &FULLMOVES {
        for &hm in &HALFMOVES {
            // plies played so far in the game
            let plies = 2 * (fm - 1) + if p.stm == Side::B { 1 } else { 0 };
            if hm > plies {
                continue;
            }
            // a double push was the last move: the clock was just reset
            if p.ep.is_some() && hm != 0 {
                continue;
            }
            v.push((hm, fm));
        }
    }
    v
}

fn start_pos(start: &str) -> Pos {
    if start == "startpos" {
        Pos::start()
    } else {
        Pos::from_fen(start).unwrap()
    }
}

fn command(start: &str, path: &[Mv]) -> String {
    let mut c = if start == "startpos" { "position startpos".to_string() } else { format!("position fen {}", start) };
    if !path.is_empty() {
        c.push_str(" moves");
        for m in path {
            c.push(' ');
            c.push_str(&m.uci());
        }
    }
    c
}

/// All legal move paths of length 0..=d from p (model), depth first, with the position reached.
fn paths(p: &Pos, d: usize, prefix: &mut Vec<Mv>, out: &mut Vec<(Vec<Mv>, Pos)>) {
    out.push((prefix.clone(), p.clone()));
    if d == 0 {
        return;
    }
    for m in p.legal_moves() {
        let n = p.make(m);
        prefix.push(m);
        paths(&n, d - 1, prefix, out);
        prefix.pop();
    }
}

pub struct Engine {
    fl: Option<Flounder>,
    pub commands: u64,
}

impl Engine {
    pub fn new() -> Engine {
        Engine { fl: None, commands: 0 }
    }

    /// Sends the commands to one engine (created on demand, kept across calls) and returns the
    /// key of the board it holds afterwards. A panic discards the engine.
    pub fn run(&mut self, cmds: &[&str]) -> Result<EKey, String> {
        if self.fl.is_none() {
            self.fl = Some(guard(Flounder::new)?);
        }
        let fl = self.fl.as_mut().unwrap();
        let r = guard(|| {
            for c in cmds {
                fl.verif_handle_command(c);
            }
            eng::key_of(fl.verif_board())
        });
        self.commands += cmds.len() as u64;
        if r.is_err() {
            self.fl = None;
        }
        r
    }
}

fn violate(rep: &Report, cmds: &[&str], text: String, detail: J) {
    rep.violation(
        format!("C04 cmds={}", cmds.join(" | ")),
        text,
        vec!["c04-one".to_string(), "--cmds".into(), cmds.join("|")],
        detail,
    );
}

/// Runs the commands and compares the resulting board with the model position `want`.
pub fn check(e: &mut Engine, rep: &Report, cmds: &[&str], want: &Pos) -> bool {
    if rep.saturated() {
        // enough evidence on a failing tree: do not spend time on further cases
        return false;
    }
    if crate::crumb::enabled() {
        crate::crumb::set(&["c04-one", "--cmds", &cmds.join("|")]);
    }
    match e.run(cmds) {
        Err(err) => {
            violate(rep, cmds, format!("{:?}: {}", cmds, err), J::Null);
            false
        }
        Ok(got) => {
            let w = eng::key_of_pos(want);
            if got != w {
                violate(
                    rep,
                    cmds,
                    format!("after {:?} the engine holds {} but the game position is {:?}", cmds, eng::describe_key(&got), want.fen4()),
                    J::obj().set("engine", eng::describe_key(&got)).set("expected", eng::describe_key(&w)),
                );
                false
            } else {
                true
            }
        }
    }
}

/// Can a man of this kind and side go from `f` to `t` on an otherwise empty board (capture =
/// something stands on t)?
fn reaches(side: Side, kind: Kind, f: u8, t: u8, capture: bool) -> bool {
    let df = (t % 8) as i32 - (f % 8) as i32;
    let dr = (t / 8) as i32 - (f / 8) as i32;
    if df == 0 && dr == 0 {
        return false;
    }
    match kind {
        Kind::N => (df.abs(), dr.abs()) == (1, 2) || (df.abs(), dr.abs()) == (2, 1),
        Kind::K => df.abs() <= 1 && dr.abs() <= 1,
        Kind::R => df == 0 || dr == 0,
        Kind::B => df.abs() == dr.abs(),
        Kind::Q => df == 0 || dr == 0 || df.abs() == dr.abs(),
        Kind::P => {
            let fwd = if side == Side::W { 1 } else { -1 };
            let home = if side == Side::W { 1 } else { 6 };
            let r = (f / 8) as i32;
            if r == 0 || r == 7 {
                return false;
            }
            if capture {
                df.abs() == 1 && dr == fwd
            } else {
                df == 0 && (dr == fwd || (dr == 2 * fwd && r == home))
            }
        }
    }
}

/// Part (e): one position per (side, kind, from, to, content of to [, promotion]).
fn string_class(contents: &[Option<Kind>]) -> Vec<(Pos, Mv)> {
    let king_squares: [u8; 12] = [4, 60, 0, 7, 56, 63, 27, 36, 18, 45, 31, 32];
    let mut out = Vec::new();
    for side in [Side::W, Side::B] {
        for kind in [Kind::K, Kind::Q, Kind::R, Kind::B, Kind::N, Kind::P] {
            for f in 0..64u8 {
                for t in 0..64u8 {
                    for &c in contents {
                        if !reaches(side, kind, f, t, c.is_some()) {
                            continue;
                        }
                        if c == Some(Kind::P) && (t / 8 == 0 || t / 8 == 7) {
                            continue;
                        }
                        let last = if side == Side::W { 7 } else { 0 };
                        let promos: Vec<Option<Kind>> = if kind == Kind::P && t / 8 == last { vec![Some(Kind::Q), Some(Kind::R), Some(Kind::B), Some(Kind::N)] } else { vec![None] };
                        // first pair of king squares that makes the position valid and the move legal
                        let mut found: Option<Pos> = None;
                        // home squares first, so that castling rights can be added below
                        let (own_home, enemy_home) = if side == Side::W { (4u8, 60u8) } else { (60u8, 4u8) };
                        let mut own_list = vec![own_home];
                        own_list.extend(king_squares.iter().filter(|k| **k != own_home));
                        let mut enemy_list = vec![enemy_home];
                        enemy_list.extend(king_squares.iter().filter(|k| **k != enemy_home));
                        'kings: for &ok in &own_list {
                            for &ek in &enemy_list {
                                let mut p = Pos::empty();
                                p.stm = side;
                                p.sq[f as usize] = Some((side, kind));
                                if let Some(k) = c {
                                    p.sq[t as usize] = Some((side.other(), k));
                                }
                                if kind != Kind::K {
                                    if p.sq[ok as usize].is_some() {
                                        continue;
                                    }
                                    p.sq[ok as usize] = Some((side, Kind::K));
                                }
                                if p.sq[ek as usize].is_some() {
                                    continue;
                                }
                                p.sq[ek as usize] = Some((side.other(), Kind::K));
                                if !p.is_valid() {
                                    continue;
                                }
                                let m = Mv { from: f, to: t, promo: promos[0] };
                                if p.legal_moves().contains(&m) {
                                    found = Some(p);
                                    break 'kings;
                                }
                                if kind == Kind::K {
                                    continue;
                                }
                            }
                        }
                        if let Some(p) = found {
                            for pr in &promos {
                                out.push((p.clone(), Mv { from: f, to: t, promo: *pr }));
                            }
                            // the same move while castling rights are held: rooks on the home
                            // corners of a king that stands on its home square, rights set
                            for who in [side, side.other()] {
                                let (home, corners, flags) = if who == Side::W { (4u8, [7u8, 0u8], [crate::refchess::WK, crate::refchess::WQ]) } else { (60u8, [63u8, 56u8], [crate::refchess::BK, crate::refchess::BQ]) };
                                if p.sq[home as usize] != Some((who, Kind::K)) {
                                    continue;
                                }
                                let mut q = p.clone();
                                let mut any = false;
                                for i in 0..2 {
                                    let c = corners[i];
                                    if q.sq[c as usize].is_none() && c != t {
                                        q.sq[c as usize] = Some((who, Kind::R));
                                    }
                                    if q.sq[c as usize] == Some((who, Kind::R)) {
                                        q.castle[flags[i]] = true;
                                        any = true;
                                    }
                                }
                                let m0 = Mv { from: f, to: t, promo: promos[0] };
                                if any && q.is_valid() && q.legal_moves().contains(&m0) {
                                    for pr in &promos {
                                        out.push((q.clone(), Mv { from: f, to: t, promo: *pr }));
                                    }
                                }
                            }
                        }
                    }
                }
            }
        }
    }
    out
}

struct Lcg(u64);
impl Lcg {
    fn next(&mut self) -> u64 {
        self.0 = self.0.wrapping_mul(6364136223846793005).wrapping_add(1442695040888963407);
        self.0 >> 33
    }
}

/// A long legal game from `p`, chosen by a fixed pseudo-random rule (seeded): used for the
/// every-prefix sweep. Stops at mate/stalemate or after `plies`.
fn long_game(p: &Pos, plies: usize, seed: u64) -> Vec<Mv> {
    let mut rng = Lcg(seed.wrapping_mul(0x9E3779B97F4A7C15) ^ 0xC04);
    let mut cur = p.clone();
    let mut out = Vec::new();
    for _ in 0..plies {
        let mut ms = cur.legal_moves();
        if ms.is_empty() {
            break;
        }
        ms.sort();
        let m = ms[(rng.next() % ms.len() as u64) as usize];
        cur = cur.make(m);
        out.push(m);
    }
    out
}

pub use crate::longgame::very_long_game;

pub const VERY_LONG_TARGET: usize = 4800;

/// Commands that do not concern the game: after any of them the position is the one last set.
pub const AFTER_POSITION: &[&str] = &[
    "isready",
    "uci",
    "setoption name Hash value 32",
    "setoption name Clear Hash",
    "setoption name UCI_AnalyseMode value true",
    "debug on",
    "stop",
    "ponderhit",
    "xyzzy",
];

/// One prefix of the very long game as a single position command (replayed by its length).
fn check_very_long(e: &mut Engine, rep: &Report, game: &[Mv], positions: &[Pos], l: usize) {
    if rep.saturated() {
        return;
    }
    let args = vec!["c04-long".to_string(), "--plies".into(), l.to_string()];
    if crate::crumb::enabled() {
        crate::crumb::set(&["c04-long", "--plies", &l.to_string()]);
    }
    let c = command("startpos", &game[..l]);
    let want = &positions[l];
    let sig = format!("C04 very-long-game plies={}", l);
    match e.run(&[&c]) {
        Err(err) => rep.violation(sig, format!("position startpos moves <the first {} plies of the built {}-ply game>: {}", l, game.len(), err), args, J::Null),
        Ok(got) => {
            let w = eng::key_of_pos(want);
            if got != w {
                rep.violation(
                    sig,
                    format!("after position startpos moves <the first {} plies of the built {}-ply game> the engine holds {} but the game position is {:?}", l, game.len(), eng::describe_key(&got), want.fen4()),
                    args,
                    J::obj().set("last_moves", game[l.saturating_sub(6)..l].iter().map(|m| m.uci()).collect::<Vec<_>>()),
                );
            }
        }
    }
}

pub fn replay_very_long(l: usize) -> i32 {
    let rep = Report::new("C04", "quick", 0);
    let game = very_long_game(VERY_LONG_TARGET);
    let mut positions = vec![start_pos("startpos")];
    for m in &game {
        let n = positions.last().unwrap().make(*m);
        positions.push(n);
    }
    let mut e = Engine::new();
    check_very_long(&mut e, &rep, &game, &positions, l.min(game.len()));
    let v = rep.violations.lock().unwrap();
    for x in v.iter() {
        println!("REPLAY-VIOLATION {} :: {}", x.sig, x.text);
    }
    if v.is_empty() {
        println!("REPLAY-OK C04 very long game, {} plies", l);
        0
    } else {
        1
    }
}

pub fn run(tier: &str, seed: u64, out: &str) {
    let rep = Report::new("C04", tier, seed);
    let thorough = tier == "thorough";
    if let Err(e) = crate::refchess::self_test(3) {
        eprintln!("MACHINERY ERROR: {}", e);
        std::process::exit(2);
    }
    let commands = AtomicU64::new(0);
    let mut cov_parts = Vec::new();
    let mut samples: Vec<J> = Vec::new();
    let mut states_total = 0u64;
    let mut transitions_total = 0u64;

    // ---- (a) every legal move path of length <= d from each start
    let mut fen_states: Vec<Pos> = Vec::new();
    for (name, start, dq, dt) in STARTS {
        if rep.saturated() {
            break;
        }
        let d = if thorough { *dt } else { *dq };
        let p0 = start_pos(start);
        if let Err(e) = p0.validity() {
            eprintln!("MACHINERY ERROR: C04 start {:?} invalid: {}", start, e);
            std::process::exit(2);
        }
        let mut all = Vec::new();
        paths(&p0, d, &mut Vec::new(), &mut all);
        let results: Vec<bool> = par_map_init(&all, Engine::new, |e, (path, want)| {
            let c = command(start, path);
            let ok = check(e, &rep, &[&c], want);
            commands.fetch_add(1, Ordering::Relaxed);
            ok
        });
        let castles = all.iter().filter(|(p, _)| p.iter().any(|m| (m.from == 4 || m.from == 60) && (m.from as i32 - m.to as i32).abs() == 2)).count();
        let promos = all.iter().filter(|(p, _)| p.iter().any(|m| m.promo.is_some())).count();
        let underpromos = all.iter().filter(|(p, _)| p.iter().any(|m| m.promo.is_some() && m.promo != Some(crate::refchess::Kind::Q))).count();
        eprintln!("[C04] paths {:?}: depth {} -> {} commands, ok {} ({:.1}s)", name, d, all.len(), results.iter().filter(|x| **x).count(), rep.elapsed());
        if samples.len() < 4 {
            if let Some((path, _)) = all.iter().rev().find(|(p, _)| p.len() == d) {
                samples.push(J::Str(command(start, path)));
            }
        }
        states_total += all.len() as u64;
        transitions_total += all.iter().map(|(p, _)| p.len() as u64).sum::<u64>();
        cov_parts.push(
            J::obj()
                .set("part", "a: every legal move path")
                .set("start", *start)
                .set("name", *name)
                .set("max_path_length", d)
                .set("commands", all.len())
                .set("paths_containing_a_king_two_file_move", castles)
                .set("paths_containing_a_promotion", promos)
                .set("paths_containing_an_under_promotion", underpromos),
        );
        // states for the FEN sweep: everything within 2 plies of this start
        for (path, pos) in &all {
            if path.len() <= 2 {
                fen_states.push(pos.clone());
            }
        }
    }

    // ---- (b) FEN renderings of every state within two plies of the special roots + the starts
    if !rep.saturated() {
        let roots = crate::roots::all_roots().unwrap_or_else(|e| {
            eprintln!("MACHINERY ERROR: {}", e);
            std::process::exit(2)
        });
        let depth = if thorough { 2 } else { 1 };
        for r in &roots {
            let mut all = Vec::new();
            paths(&r.pos, depth, &mut Vec::new(), &mut all);
            fen_states.extend(all.into_iter().map(|(_, p)| p));
        }
        // positions with move lists as long as chess allows (218 legal moves, promotions by the
        // dozen): as FENs, and every one of their legal moves as a one-move list
        let extreme = crate::roots::extreme_roots().unwrap_or_else(|e| {
            eprintln!("MACHINERY ERROR: {}", e);
            std::process::exit(2)
        });
        let mut extreme_cmds = 0u64;
        {
            let jobs: Vec<(Pos, Mv)> = extreme.iter().flat_map(|r| r.pos.legal_moves().into_iter().map(move |m| (r.pos.clone(), m))).collect();
            let done: Vec<u64> = par_map_init(&jobs, Engine::new, |e, (p, m)| {
                let c = format!("position fen {} moves {}", p.fen(0, 1), m.uci());
                check(e, &rep, &[&c], &p.make(*m));
                1
            });
            extreme_cmds += done.iter().sum::<u64>();
            commands.fetch_add(extreme_cmds, Ordering::Relaxed);
            transitions_total += extreme_cmds;
        }
        for r in &extreme {
            fen_states.push(r.pos.clone());
        }
        eprintln!("[C04] extreme roots: {} one-move lists ({:.1}s)", extreme_cmds, rep.elapsed());
        let mut seen = std::collections::HashSet::new();
        fen_states.retain(|p| seen.insert(p.fen4()));
        let counts: Vec<(u64, u64)> = par_map_init(&fen_states, Engine::new, |e, p| {
            let mut n = 0u64;
            let mut big = 0u64;
            for (hm, fm) in reachable_counters(p) {
                let c = format!("position fen {}", p.fen(hm, fm));
                check(e, &rep, &[&c], p);
                n += 1;
                if fm > 255 || hm > 100 {
                    big += 1;
                }
            }
            commands.fetch_add(n, Ordering::Relaxed);
            (n, big)
        });
        let n: u64 = counts.iter().map(|c| c.0).sum();
        let big: u64 = counts.iter().map(|c| c.1).sum();
        eprintln!("[C04] FEN renderings: {} states x reachable counter pairs = {} commands ({} with fullmove > 255 or halfmove > 100) ({:.1}s)", fen_states.len(), n, big, rep.elapsed());
        if let Some(p) = fen_states.iter().find(|p| p.ep.is_some()) {
            samples.push(J::Str(format!("position fen {}", p.fen(0, 300))));
        }
        if let Some(p) = fen_states.iter().find(|p| p.ep.is_none() && p.castle.iter().any(|c| *c)) {
            samples.push(J::Str(format!("position fen {}", p.fen(120, 5949))));
        }
        states_total += fen_states.len() as u64;
        transitions_total += n;
        cov_parts.push(
            J::obj()
                .set("part", "b: FEN with every reachable counter pair of the grid")
                .set("states", fen_states.len())
                .set("halfmove_grid", HALFMOVES.to_vec())
                .set("fullmove_grid", FULLMOVES.to_vec())
                .set("commands", n)
                .set("commands_with_fullmove_over_255_or_halfmove_over_100", big)
                .set("states_with_en_passant_target", fen_states.iter().filter(|p| p.ep.is_some()).count())
                .set("states_with_castling_rights", fen_states.iter().filter(|p| p.castle.iter().any(|c| *c)).count()),
        );
    }

    // ---- (c) ordered pairs of position commands on one engine
    if !rep.saturated() {
        let mut pool: Vec<(String, Pos)> = Vec::new();
        for (_, start, _, _) in STARTS.iter().take(if thorough { STARTS.len() } else { 9 }) {
            let p0 = start_pos(start);
            pool.push((command(start, &[]), p0.clone()));
            let ms = p0.legal_moves();
            if let Some(m) = ms.last() {
                pool.push((command(start, &[*m]), p0.make(*m)));
            }
            if let Some(m) = ms.first() {
                let p1 = p0.make(*m);
                // a one-move list that is a prefix of the two-move list below
                pool.push((command(start, &[*m]), p1.clone()));
                if let Some(m2) = p1.legal_moves().last() {
                    pool.push((command(start, &[*m, *m2]), p1.make(*m2)));
                }
            }
        }
        let mut pairs = Vec::new();
        for i in 0..pool.len() {
            for j in 0..pool.len() {
                pairs.push((i, j));
            }
        }
        // what may stand between the two position commands: nothing, a new game, a search
        let separators: [Option<&str>; 3] = [None, Some("ucinewgame"), Some("go depth 1")];
        par_map_init(&pairs, Engine::new, |e, &(i, j)| {
            for sep in separators {
                // fresh engine for every history, so the listed commands are the whole history
                *e = Engine::new();
                match sep {
                    None => check(e, &rep, &[&pool[i].0, &pool[j].0], &pool[j].1),
                    Some(x) => check(e, &rep, &[&pool[i].0, x, &pool[j].0], &pool[j].1),
                };
                commands.fetch_add(2, Ordering::Relaxed);
            }
        });
        // a command that does not concern the game, sent after the position command, leaves the
        // position alone (what the next go would search is still the position last set); also
        // after one more such command and after a search
        let after: Vec<usize> = (0..pool.len()).collect();
        par_map_init(&after, Engine::new, |e, &i| {
            for c in AFTER_POSITION {
                *e = Engine::new();
                check(e, &rep, &[&pool[i].0, c], &pool[i].1);
                for c2 in AFTER_POSITION {
                    *e = Engine::new();
                    check(e, &rep, &[&pool[i].0, c, c2], &pool[i].1);
                }
                *e = Engine::new();
                check(e, &rep, &[&pool[i].0, "go depth 1", c], &pool[i].1);
                commands.fetch_add(2 + AFTER_POSITION.len() as u64, Ordering::Relaxed);
            }
        });
        transitions_total += (pool.len() * AFTER_POSITION.len() * (2 + AFTER_POSITION.len())) as u64;
        cov_parts.push(J::obj().set("part", "c2: every pool command followed by one or two commands that do not concern the game (and by a search and one such command): the position is unchanged").set("commands_after_position", AFTER_POSITION.to_vec()).set("histories", pool.len() * AFTER_POSITION.len() * (2 + AFTER_POSITION.len())));
        eprintln!("[C04] ordered pairs: {} commands -> {} pairs x {} separators ({:.1}s)", pool.len(), pairs.len(), separators.len(), rep.elapsed());
        states_total += pool.len() as u64;
        transitions_total += (pairs.len() * separators.len()) as u64;
        cov_parts.push(J::obj().set("part", "c: every ordered pair of position commands on a fresh engine, with nothing / ucinewgame / go depth 1 between them").set("commands_in_pool", pool.len()).set("pairs", pairs.len()).set("separators", vec!["(nothing)", "ucinewgame", "go depth 1"]).set("histories", pairs.len() * separators.len()));
    }

    // ---- (d) every prefix of long games
    if !rep.saturated() {
        let plies = if thorough { 400 } else { 160 };
        let games: Vec<(String, Vec<Mv>)> = STARTS
            .iter()
            .take(if thorough { 8 } else { 3 })
            .enumerate()
            .map(|(i, (_, start, _, _))| (start.to_string(), long_game(&start_pos(start), plies, seed + i as u64)))
            .collect();
        let mut jobs: Vec<(usize, usize)> = Vec::new();
        for (g, (_, ms)) in games.iter().enumerate() {
            for l in 1..=ms.len() {
                jobs.push((g, l));
            }
        }
        par_map_init(&jobs, Engine::new, |e, &(g, l)| {
            let (start, ms) = &games[g];
            let mut p = start_pos(start);
            for m in &ms[..l] {
                p = p.make(*m);
            }
            let c = command(start, &ms[..l]);
            check(e, &rep, &[&c], &p);
            commands.fetch_add(1, Ordering::Relaxed);
        });
        eprintln!("[C04] long games: {} games, {} prefixes ({:.1}s)", games.len(), jobs.len(), rep.elapsed());
        transitions_total += jobs.len() as u64;
        cov_parts.push(
            J::obj()
                .set("part", "d: every prefix of long games (moves chosen by a seeded rule; supplementary, not exhaustive)")
                .set("games", games.len())
                .set("game_lengths", games.iter().map(|g| g.1.len()).collect::<Vec<_>>())
                .set("commands", jobs.len()),
        );
    }

    // ---- (g) one very long game (thousands of plies): every prefix
    if !rep.saturated() {
        let game = very_long_game(VERY_LONG_TARGET);
        if game.len() < 4200 {
            eprintln!("MACHINERY ERROR: the very long game could only be built to {} plies", game.len());
            std::process::exit(2);
        }
        let mut positions = vec![start_pos("startpos")];
        for m in &game {
            let n = positions.last().unwrap().make(*m);
            positions.push(n);
        }
        let mut lens: Vec<usize> = (1..=game.len()).collect();
        lens.reverse(); // longest first: better balance across workers
        par_map_init(&lens, Engine::new, |e, &l| {
            check_very_long(e, &rep, &game, &positions, l);
            commands.fetch_add(1, Ordering::Relaxed);
        });
        eprintln!("[C04] very long game: {} plies, {} prefixes sent ({:.1}s)", game.len(), lens.len(), rep.elapsed());
        transitions_total += lens.len() as u64;
        cov_parts.push(
            J::obj()
                .set("part", "g: prefixes of one built game of thousands of plies (knights wander along a path without repeated positions, a pawn push at least every 148 plies: legal under the fivefold and 75-move rules)")
                .set("game_plies", game.len())
                .set("prefix_lengths_sent", lens.len())
                .set("longest", game.len())
                .set("selection", "every prefix"),
        );
    }

    // ---- (f) sessions: every sequence of up to four position commands over a small family of
    // related move lists (the prefixes of a main line and of a variation that leaves it after
    // two plies): extension, take-back, variation, take-back beyond the branch point, repeats
    if !rep.saturated() {
        let families: Vec<(&str, [&str; 4], [&str; 2])> = if thorough {
            vec![
                ("startpos", ["e2e4", "e7e5", "g1f3", "b8c6"], ["f1c4", "g8f6"]),
                ("r3k2r/p1ppqpb1/bn2pnp1/3PN3/1p2P3/2N2Q1p/PPPBBPPP/R3K2R w KQkq - 0 1", ["e1g1", "e8c8", "d5e6", "d7e6"], ["a2a4", "b4a3"]),
            ]
        } else {
            vec![("startpos", ["e2e4", "e7e5", "g1f3", "b8c6"], ["f1c4", "g8f6"])]
        };
        let max_len = if thorough { 5 } else { 4 };
        let mut n_seq = 0usize;
        for (start, main, var) in &families {
            let p0 = start_pos(start);
            let mainm: Vec<Mv> = main.iter().map(|t| Mv::parse(t).unwrap()).collect();
            let varm: Vec<Mv> = var.iter().map(|t| Mv::parse(t).unwrap()).collect();
            let mut lists: Vec<Vec<Mv>> = (0..=4).map(|k| mainm[..k].to_vec()).collect();
            lists.push(vec![mainm[0], mainm[1], varm[0]]);
            lists.push(vec![mainm[0], mainm[1], varm[0], varm[1]]);
            let pool: Vec<(String, Pos)> = lists
                .iter()
                .map(|l| {
                    let mut p = p0.clone();
                    for m in l {
                        if !p.legal_moves().contains(m) {
                            eprintln!("MACHINERY ERROR: C04 session family {:?}: {} is not legal", start, m.uci());
                            std::process::exit(2);
                        }
                        p = p.make(*m);
                    }
                    (command(start, l), p)
                })
                .collect();
            let mut seqs: Vec<Vec<usize>> = Vec::new();
            let mut layer: Vec<Vec<usize>> = vec![vec![]];
            for _ in 0..max_len {
                let mut next = Vec::new();
                for s in &layer {
                    for a in 0..pool.len() {
                        let mut t = s.clone();
                        t.push(a);
                        next.push(t);
                    }
                }
                seqs.extend(next.iter().cloned());
                layer = next;
            }
            n_seq += seqs.len();
            par_map_init(&seqs, Engine::new, |e, sq| {
                *e = Engine::new();
                let cmds: Vec<&str> = sq.iter().map(|i| pool[*i].0.as_str()).collect();
                check(e, &rep, &cmds, &pool[*sq.last().unwrap()].1);
                commands.fetch_add(cmds.len() as u64, Ordering::Relaxed);
            });
        }
        eprintln!("[C04] sessions: {} command sequences of length <= {} ({:.1}s)", n_seq, max_len, rep.elapsed());
        transitions_total += n_seq as u64;
        cov_parts.push(J::obj().set("part", "f: every sequence of position commands up to the listed length over 7 related move lists per family (prefixes of a 4-ply main line and of a variation leaving it after 2 plies), each sequence on a fresh engine: extensions, take-backs, variations, take-backs beyond the branch point, repeats").set("families", families.len()).set("max_commands", max_len).set("sequences", n_seq));
    }

    // ---- (e) every move string by every kind of man
    if !rep.saturated() {
        let contents: Vec<Option<Kind>> = if thorough { vec![None, Some(Kind::R), Some(Kind::Q), Some(Kind::B), Some(Kind::N), Some(Kind::P)] } else { vec![None, Some(Kind::R)] };
        let cases = string_class(&contents);
        let by_kind = |k: Kind| cases.iter().filter(|c| c.0.sq[c.1.from as usize].map(|x| x.1) == Some(k)).count();
        par_map_init(&cases, Engine::new, |e, (p, m)| {
            let fen = p.fen(0, 1);
            let c = command(&fen, &[*m]);
            check(e, &rep, &[&c], &p.make(*m));
            commands.fetch_add(1, Ordering::Relaxed);
        });
        eprintln!("[C04] move strings: {} (position, move) cases ({:.1}s)", cases.len(), rep.elapsed());
        transitions_total += cases.len() as u64;
        if let Some((p, m)) = cases.iter().find(|c| c.1.uci() == "e1a1" && c.0.sq[4].map(|x| x.1) == Some(Kind::Q)) {
            samples.push(J::Str(command(&p.fen(0, 1), &[*m])));
        }
        cov_parts.push(
            J::obj()
                .set("part", "e: every move string by every kind of man: for each colour, each kind, each from-square and each to-square that kind can reach (pawns: pushes, double pushes, captures, all four promotions), onto an empty square and capturing each listed enemy kind, in a position with only the two kings added, and again with rooks on the home corners and the castling rights of the mover's side / of the other side set whenever that king stands on its home square; sent as position fen ... moves <m>")
                .set("captured_kinds", contents.iter().map(|c| match c { None => "none".to_string(), Some(k) => format!("{:?}", k) }).collect::<Vec<_>>())
                .set("cases", cases.len())
                .set("by_king", by_kind(Kind::K))
                .set("by_queen", by_kind(Kind::Q))
                .set("by_rook", by_kind(Kind::R))
                .set("by_bishop", by_kind(Kind::B))
                .set("by_knight", by_kind(Kind::N))
                .set("by_pawn", by_kind(Kind::P)),
        );
    }

    let n = commands.load(Ordering::Relaxed);
    let cov = J::obj()
        .set("states", states_total)
        .set("transitions", transitions_total)
        .set("traces_validated_against_impl", n)
        .set("evaluations", n)
        .set("distinct_nontrivial", n)
        .set("rule", "a case = one history of position commands sent to the real command handler; the board read back through the hook is compared with the rules model's position for the same start and move strings. Every case is a distinct command history")
        .set("parts", J::Arr(cov_parts))
        .set("samples", J::Arr(samples))
        .set("exhaustive", false)
        .set("bound", "every legal path up to the listed length from the listed starts; every grid counter pair a real game can reach for every state within 1-2 plies of the special roots; ordered pairs over the pool; prefixes of seeded long games");
    rep.finish(
        "model_checking",
        cov,
        vec![
            "the rules model is correct (perft self-test) and reads FEN / UCI move text as the standards define them".into(),
            "malformed FENs, illegal or malformed move strings and non-canonical castling-field orders are outside the property and never sent".into(),
            "counters are taken as reachable when halfmove <= plies played and halfmove = 0 after a double push".into(),
        ],
        out,
    );
}

/// Replay: `--cmds "cmd1|cmd2|..."`; the expectation is recomputed from the last command.
pub fn replay(cmds_text: &str) -> i32 {
    let rep = Report::new("C04", "quick", 0);
    let cmds: Vec<&str> = cmds_text.split('|').map(|s| s.trim()).collect();
    let last = cmds.last().unwrap();
    let toks: Vec<&str> = last.split_whitespace().collect();
    let (mut p, rest) = if toks.get(1) == Some(&"startpos") {
        (Pos::from_fen(START_FEN).unwrap(), &toks[2..])
    } else {
        (Pos::from_fen(&toks[2..8].join(" ")).unwrap(), &toks[8..])
    };
    if rest.first() == Some(&"moves") {
        for t in &rest[1..] {
            p = p.make(Mv::parse(t).unwrap());
        }
    }
    let mut e = Engine::new();
    check(&mut e, &rep, &cmds, &p);
    let v = rep.violations.lock().unwrap();
    for x in v.iter() {
        println!("REPLAY-VIOLATION {} :: {}", x.sig, x.text);
    }
    if v.is_empty() {
        println!("REPLAY-OK C04 {:?} -> {}", cmds, p.fen4());
        0
    } else {
        1
    }
}

#[allow(dead_code)]
fn _unused(_: &Board) {}
