//! C09: the third occurrence of a position in the game is scored as a draw.
//!
//! Every legal history over a small shuffle alphabet (reversible moves for both sides plus
//! irreversible ones) up to length L is sent through the real command handler as
//! `ucinewgame` / `position <start> moves <h>`; then the real depth-1 search runs with the
//! repetition trace on. For every successor the search visited at ply 1 the engine's own draw
//! decision (the value the real `negamax` is about to use) must equal "this position already
//! occurred at least twice in the game given by the command" as counted by the rules model;
//! and the depth-1 score and move must equal the reference max over successors of
//! (0 if third occurrence else minus the successor's quiescence value).
//! Pairs of position commands check that only the most recent command's history counts.

use crate::board::Board;
use crate::eng::{self, guard, EKey};
use crate::json::J;
use crate::par::par_map_init;
use crate::refchess::{Mv, Pos, Side};
use crate::report::Report;
use crate::searchref::{classify, Class, RefCache};
use crate::uci::Flounder;
use std::collections::HashMap;
use std::sync::atomic::{AtomicU64, Ordering};

pub struct Start {
    pub name: &'static str,
    pub start: &'static str,
    /// UCI move strings that may be played whenever they are legal
    pub alphabet: &'static [&'static str],
    pub len_quick: usize,
    pub len_thorough: usize,
    /// depth of the second, deeper traced search in the quick tier (thorough: one more)
    pub deep_quick: u64,
}

pub const STARTS: &[Start] = &[
    Start {
        name: "start position, knight shuffles + 1.e4 / 1...e5",
        start: "startpos",
        alphabet: &["g1f3", "f3g1", "b1c3", "c3b1", "e2e4", "g8f6", "f6g8", "b8c6", "c6b8", "e7e5"],
        len_quick: 8,
        len_thorough: 10,
        deep_quick: 3,
    },
    Start {
        name: "K+R v k with the Q right: same placement with and without the right",
        start: "4k3/8/8/8/8/8/8/R3K3 w Q - 0 1",
        alphabet: &["a1b1", "b1a1", "e1d1", "d1e1", "a1a2", "a2a1", "e8d8", "d8e8", "e8e7", "e7e8"],
        len_quick: 8,
        len_thorough: 10,
        deep_quick: 4,
    },
    Start {
        name: "en-passant capture available at the start: same placement later without it",
        start: "rnbqkbnr/pppp1ppp/8/8/4pP2/8/PPPPP1PP/RNBQKBNR b KQkq f3 0 2",
        alphabet: &["g8f6", "f6g8", "b8c6", "c6b8", "e4f3", "g1f3", "f3g1", "b1c3", "c3b1", "g1h3", "h3g1"],
        len_quick: 7,
        len_thorough: 9,
        deep_quick: 3,
    },
    Start {
        name: "the two sides hold different castling rights while knights shuffle; rook moves change the rights",
        start: "r3k2n/8/8/8/8/8/8/N3K2R w Kq - 0 1",
        alphabet: &["a1b3", "b3a1", "a1c2", "c2a1", "h1g1", "g1h1", "h8g6", "g6h8", "h8f7", "f7h8", "a8b8", "b8a8"],
        len_quick: 8,
        len_thorough: 9,
        deep_quick: 4,
    },
    Start {
        name: "the other asymmetric rights: White may castle queen side, Black king side; rook round trips drop one right",
        start: "1n2k2r/8/8/8/8/8/8/R3K1N1 w Qk - 0 1",
        alphabet: &["g1f3", "f3g1", "g1h3", "h3g1", "a1b1", "b1a1", "b8c6", "c6b8", "b8a6", "a6b8", "h8g8", "g8h8"],
        len_quick: 7,
        len_thorough: 9,
        deep_quick: 3,
    },
    Start {
        name: "black to move first; rooks and kings shuffle, pawn moves in between",
        start: "r3k3/7p/8/8/8/8/P7/4K2R b Kq - 3 20",
        alphabet: &["a8b8", "b8a8", "e8e7", "e7e8", "h7h6", "h1g1", "g1h1", "e1e2", "e2e1", "a2a3"],
        len_quick: 6,
        len_thorough: 9,
        deep_quick: 4,
    },
    Start {
        // the side that needs the draw is a queen and a rook down, a capture is on offer next to
        // the quiet move that repeats: whatever prunes or reorders moves by static value must not
        // lose the one move that is worth a draw
        name: "far behind: knight and king shuffle while a pawn can take a rook",
        start: "3q3k/8/8/8/1r6/P7/8/6NK w - - 0 1",
        alphabet: &["g1f3", "f3g1", "g1e2", "e2g1", "h8g8", "g8h8", "h8h7", "h7h8", "a3b4", "d8d7", "d7d8"],
        len_quick: 8,
        len_thorough: 9,
        deep_quick: 3,
    },
    Start {
        name: "perpetual check: every reply to the queen's checks is forced (single legal move)",
        start: "6k1/5ppp/8/8/7q/8/R5P1/6K1 b - - 0 1",
        alphabet: &["h4e1", "g1h2", "e1h4", "h2g1", "h4h5", "h5h4", "a2a1", "a1a2", "g8f8", "f8g8"],
        len_quick: 9,
        len_thorough: 11,
        deep_quick: 4,
    },
];

fn start_pos(start: &str) -> Pos {
    if start == "startpos" {
        Pos::start()
    } else {
        Pos::from_fen(start).unwrap()
    }
}

fn command(start: &str, h: &[Mv]) -> String {
    let mut c = if start == "startpos" { "position startpos".to_string() } else { format!("position fen {}", start) };
    if !h.is_empty() {
        c.push_str(" moves");
        for m in h {
            c.push(' ');
            c.push_str(&m.uci());
        }
    }
    c
}

/// Every legal sequence over the alphabet of length 0..=l.
fn histories(p: &Pos, alphabet: &[Mv], l: usize, prefix: &mut Vec<Mv>, out: &mut Vec<Vec<Mv>>) {
    out.push(prefix.clone());
    if l == 0 {
        return;
    }
    let legal = p.legal_moves();
    for m in alphabet {
        if legal.contains(m) {
            prefix.push(*m);
            histories(&p.make(*m), alphabet, l - 1, prefix, out);
            prefix.pop();
        }
    }
}

/// The two notions of "same position": the strict one (en-passant target as recorded, which
/// is what FEN and the engine's hash see) and FIDE 9.2 (target counts only if a capture onto it
/// is legal). A candidate on which they disagree about ">= 2 earlier occurrences" is
/// ambiguous under the property's wording and is not judged.
fn occurrences(game: &[Pos], s: &Pos) -> (usize, usize) {
    let strict = game.iter().filter(|g| eng::key_of_pos(g) == eng::key_of_pos(s)).count();
    let sk = s.repetition_key();
    let fide = game.iter().filter(|g| g.repetition_key() == sk).count();
    (strict, fide)
}

/// Depth of the second, deeper traced search of every case (0 = none)
pub static DEEP_DEPTH: AtomicU64 = AtomicU64::new(3);
/// Whether command pairs get the deeper search too (thorough tier and replays)
pub static DEEP_PAIRS: AtomicU64 = AtomicU64::new(1);

pub struct Stats {
    pub limited: AtomicU64,
    pub long_histories: AtomicU64,
    pub deep_nodes: AtomicU64,
    pub deep_plain: AtomicU64,
    pub deep_draws: AtomicU64,
    pub deep_once: AtomicU64,
    pub histories: AtomicU64,
    pub candidates: AtomicU64,
    pub draws_expected: AtomicU64,
    pub once_seen: AtomicU64,
    pub ambiguous: AtomicU64,
    pub values_compared: AtomicU64,
    pub child_values_judged: AtomicU64,
}

/// One case: optional earlier position command (`prev`), then `position start moves h`, then a
/// depth-1 search. Returns the number of candidates judged.
/// Commands a GUI may send between `position` and `go`. None of them touches the game: the history
/// given by the position command still counts when the search starts.
pub const INTERLUDES: &[&str] = &[
    "isready",
    "uci",
    "setoption name Hash value 32",
    "setoption name Clear Hash",
    "setoption name Ponder value false",
    "debug on",
    "stop",
    "ponderhit",
    "xyzzy",
];

pub static INTERLUDE_CASES: AtomicU64 = AtomicU64::new(0);

pub fn check_history(fl: &mut Option<Flounder>, cache: &RefCache, rep: &Report, st: &Stats, start: &str, prev: Option<&[Mv]>, h: &[Mv]) {
    check_history_limit(fl, cache, rep, st, start, prev, h, None, None);
    if prev.is_none() {
        // the same case searched under a clock that never expires (10^7 ms of the node clock):
        // a time limit that is not reached must not change what the search concludes
        check_history_limit(fl, cache, rep, st, start, prev, h, Some(10_000_000), None);
        // histories in which the rule decides something (some successor would be a third
        // occurrence): the same case with one more command between `position` and a real
        // `go depth 1` sent through the command handler
        let mut game = vec![start_pos(start)];
        for m in h {
            let n = game.last().unwrap().make(*m);
            game.push(n);
        }
        let root = game.last().unwrap().clone();
        let decisive = root.legal_moves().iter().any(|m| {
            let (strict, fide) = occurrences(&game, &root.make(*m));
            strict >= 2 && fide >= 2
        });
        if decisive {
            for c in INTERLUDES {
                INTERLUDE_CASES.fetch_add(1, Ordering::Relaxed);
                check_history_limit(fl, cache, rep, st, start, prev, h, None, Some(c));
            }
        }
    }
}

pub fn check_history_limit(fl: &mut Option<Flounder>, cache: &RefCache, rep: &Report, st: &Stats, start: &str, prev: Option<&[Mv]>, h: &[Mv], limit_ms: Option<u64>, interlude: Option<&str>) {
    let p0 = start_pos(start);
    let mut game = vec![p0.clone()];
    for m in h {
        let n = game.last().unwrap().make(*m);
        game.push(n);
    }
    let root = game.last().unwrap().clone();
    let cmd = command(start, h);
    let prev_cmd = prev.map(|ph| command(start, ph));
    let sig_tail = match &prev_cmd {
        Some(pc) => format!("prev={} | cmd={}", pc, cmd),
        None => format!("cmd={}", cmd),
    };
    let sig_tail = match limit_ms {
        Some(ms) => format!("{} | time limit {} ms (never reached)", sig_tail, ms),
        None => sig_tail,
    };
    let sig_tail = match interlude {
        Some(c) => format!("{} | {} | go depth 1 (through the command handler)", sig_tail, c),
        None => sig_tail,
    };
    // the variants (time limit, interlude) re-run a case already counted
    let limit_ms = if interlude.is_some() { Some(0) } else { limit_ms };
    let limit = if interlude.is_some() { None } else { limit_ms.map(std::time::Duration::from_millis) };
    if limit_ms.is_some() && interlude.is_none() {
        st.limited.fetch_add(1, Ordering::Relaxed);
    }
    let mut args = vec!["c09-one".to_string(), "--start".into(), start.to_string(), "--moves".into(), h.iter().map(|m| m.uci()).collect::<Vec<_>>().join(" ")];
    if let Some(ph) = prev {
        args.push("--prev-moves".into());
        args.push(ph.iter().map(|m| m.uci()).collect::<Vec<_>>().join(" "));
    }
    if limit_ms.is_none() {
        st.histories.fetch_add(1, Ordering::Relaxed);
    }

    crate::timer::verif::set_node_clock(Some(1));
    if fl.is_none() {
        match guard(Flounder::new) {
            Ok(f) => *fl = Some(f),
            Err(e) => {
                rep.violation(format!("C09 {} panic", sig_tail), e, args, J::Null);
                return;
            }
        }
    }
    let f = fl.as_mut().unwrap();
    let _job = crate::watch::enter(format!("C09 {} no-answer", sig_tail), format!("{}: no answer after {} s of CPU time", sig_tail, crate::watch::LIMIT_S), args.clone());
    let r = guard(|| {
        f.verif_handle_command("ucinewgame");
        if let Some(pc) = &prev_cmd {
            f.verif_handle_command(pc);
        }
        f.verif_handle_command(&cmd);
        if let Some(c) = interlude {
            f.verif_handle_command(c);
        }
        let b: Board = *f.verif_board();
        crate::search::verif::set_repetition_trace(true);
        crate::search::verif::set_child_value_trace(true);
        let (score, mv) = if interlude.is_some() {
            // the real go command: whatever the handler does between the command and the search
            // is part of the case; its score is not visible here, the decisions at ply 1 are
            crate::search::verif::set_dry_run(false);
            f.verif_handle_command("go depth 1");
            (0, None)
        } else {
            f.verif_searcher().find_best_move(&b, 1, limit)
        };
        let trace = crate::search::verif::take_repetition_trace();
        // the same decision at every ply of a deeper search (the test precedes the table probe
        // in negamax, so whatever the depth-1 search cached cannot hide a node's decision)
        // a root that has itself occurred before can come back at ply 4: one ply more then
        let root_seen_before = game[..game.len() - 1].iter().any(|g| eng::key_of_pos(g) == eng::key_of_pos(&root));
        let deep_depth = (DEEP_DEPTH.load(Ordering::Relaxed) as u8).max(if root_seen_before { 4 } else { 0 });
        let deep = if interlude.is_none() && deep_depth > 1 && ((prev_cmd.is_none() && limit.is_none()) || DEEP_PAIRS.load(Ordering::Relaxed) != 0) {
            let _ = f.verif_searcher().find_best_move(&b, deep_depth, limit);
            crate::search::verif::take_repetition_trace()
        } else {
            Vec::new()
        };
        crate::search::verif::set_repetition_trace(false);
        let child_values = crate::search::verif::take_child_values();
        crate::search::verif::set_child_value_trace(false);
        (b, score, mv, trace, deep, child_values)
    });
    let (b, score, mv, trace, deep, child_values) = match r {
        Ok(x) => x,
        Err(e) => {
            crate::search::verif::set_repetition_trace(false);
            crate::search::verif::set_child_value_trace(false);
            *fl = None;
            rep.violation(format!("C09 {} panic", sig_tail), format!("{}: {}", sig_tail, e), args, J::Null);
            return;
        }
    };
    if eng::key_of(&b) != eng::key_of_pos(&root) {
        // C04's business; without the right root nothing can be judged here
        return;
    }
    // ---- the value every searched child handed back to its parent (all searches of this case, all
    // plies): a child that is a third occurrence is worth exactly 0, whatever the table holds for
    // it and wherever in the tree it stands. A bound is accepted when 0 lies on its side of the
    // child's window (a fail-hard search may return the window's edge).
    {
        let no_ep = |mut k: EKey| {
            k.ep = 255;
            k
        };
        let game_no_ep: std::collections::HashSet<EKey> = game.iter().map(|g| no_ep(eng::key_of_pos(g))).collect();
        let mut verdicts: HashMap<EKey, bool> = HashMap::new();
        for (tb, ply, value, lo, hi) in &child_values {
            let k = eng::key_of(tb);
            if !game_no_ep.contains(&no_ep(k)) {
                continue;
            }
            let third = match verdicts.get(&k) {
                Some(t) => *t,
                None => {
                    let t = match eng::pos_of(tb) {
                        Ok(tp) => {
                            let (strict, fide) = occurrences(&game, &tp);
                            strict >= 2 && fide >= 2
                        }
                        Err(_) => false,
                    };
                    verdicts.insert(k, t);
                    t
                }
            };
            if !third {
                continue;
            }
            st.child_values_judged.fetch_add(1, Ordering::Relaxed);
            let v = *value;
            let consistent = if v <= *lo { v >= 0 } else if v >= *hi { v <= 0 } else { v == 0 };
            if !consistent {
                rep.violation(
                    format!("C09 {} child-value ply={} pos={}", sig_tail, ply, eng::describe_key(&k)),
                    format!(
                        "{}: at ply {} the search reached {} , which occurred twice before in the game (a third occurrence), searched it with the window ({}, {}) and took {} as its value instead of the draw score 0",
                        sig_tail, ply, eng::describe_key(&k), lo, hi, v
                    ),
                    args.clone(),
                    J::obj().set("value_returned_by_the_child", v).set("ply", *ply as u64),
                );
                break;
            }
        }
    }
    // ---- deeper plies: every node the deeper search visited
    {
        // a node whose placement, side and rights match no game position cannot be an occurrence
        // under either reading of the en-passant target; only the others need the model
        let no_ep = |mut k: EKey| {
            k.ep = 255;
            k
        };
        let game_no_ep: std::collections::HashSet<EKey> = game.iter().map(|g| no_ep(eng::key_of_pos(g))).collect();
        let mut seen: std::collections::HashSet<(EKey, u8)> = std::collections::HashSet::new();
        let mut plain = 0u64;
        for (tb, ply, is_draw) in &deep {
            if *ply == 0 {
                continue;
            }
            let k = eng::key_of(tb);
            if !game_no_ep.contains(&no_ep(k)) {
                if *is_draw {
                    rep.violation(
                        format!("C09 {} deep ply={} never-seen", sig_tail, ply),
                        format!("{}: at ply {} of the deeper search a position that never occurred in the game ({}) is treated as a repetition draw", sig_tail, ply, eng::describe_key(&k)),
                        args.clone(),
                        J::Null,
                    );
                    break;
                }
                plain += 1;
                continue;
            }
            if !seen.insert((k, *ply)) {
                continue;
            }
            let tp = match eng::pos_of(tb) {
                Ok(p) => p,
                Err(_) => continue,
            };
            let (strict, fide) = occurrences(&game, &tp);
            st.deep_nodes.fetch_add(1, Ordering::Relaxed);
            if (strict >= 2) != (fide >= 2) {
                continue;
            }
            if strict >= 2 {
                st.deep_draws.fetch_add(1, Ordering::Relaxed);
            } else if strict == 1 {
                st.deep_once.fetch_add(1, Ordering::Relaxed);
            }
            if *is_draw != (strict >= 2) {
                rep.violation(
                    format!("C09 {} deep ply={} pos={}", sig_tail, ply, tp.fen4()),
                    format!(
                        "{}: at ply {} of the depth-{} search the position {} occurred {} time(s) earlier in the game, so it {} a third occurrence, but the search {} it as a repetition draw",
                        sig_tail,
                        ply,
                        DEEP_DEPTH.load(Ordering::Relaxed),
                        tp.fen4(),
                        strict,
                        if strict >= 2 { "is" } else { "is not" },
                        if *is_draw { "treats" } else { "does not treat" }
                    ),
                    args.clone(),
                    J::obj().set("earlier_occurrences", strict).set("engine_draw_decision", *is_draw).set("ply", *ply as u64),
                );
                break;
            }
        }
        st.deep_plain.fetch_add(plain, Ordering::Relaxed);
    }
    let mut decided: HashMap<EKey, bool> = HashMap::new();
    for (tb, ply, is_draw) in &trace {
        if *ply == 1 {
            decided.insert(eng::key_of(tb), *is_draw);
        }
    }
    let legal = root.legal_moves();
    let mut expected_best: Option<i32> = Some(i32::MIN);
    let mut values: Vec<(Mv, Option<i32>, bool)> = Vec::new();
    let mut any_ambiguous = false;
    for m in &legal {
        let s = root.make(*m);
        let (strict, fide) = occurrences(&game, &s);
        let draw = strict >= 2;
        st.candidates.fetch_add(limit_ms.is_none() as u64, Ordering::Relaxed);
        if (strict >= 2) != (fide >= 2) {
            st.ambiguous.fetch_add(1, Ordering::Relaxed);
            any_ambiguous = true;
            values.push((*m, None, draw));
            expected_best = None;
            continue;
        }
        if draw {
            st.draws_expected.fetch_add(limit_ms.is_none() as u64, Ordering::Relaxed);
        } else if strict == 1 {
            st.once_seen.fetch_add(limit_ms.is_none() as u64, Ordering::Relaxed);
        }
        if let Some(got) = decided.get(&eng::key_of_pos(&s)) {
            if *got != draw {
                rep.violation(
                    format!("C09 {} move={}", sig_tail, m.uci()),
                    format!(
                        "{}: the successor after {} occurred {} time(s) earlier in the game, so it {} a third occurrence, but the search {} it as a repetition draw",
                        sig_tail,
                        m.uci(),
                        strict,
                        if draw { "is" } else { "is not" },
                        if *got { "treats" } else { "does not treat" }
                    ),
                    args.clone(),
                    J::obj().set("earlier_occurrences", strict).set("engine_draw_decision", *got),
                );
            }
        }
        // reference value of the move
        let val = if draw {
            Some(0)
        } else {
            match eng::board_of(&s) {
                Ok(sb) => cache.q(&sb).map(|q| -q),
                Err(_) => None,
            }
        };
        values.push((*m, val, draw));
        expected_best = match (expected_best, val) {
            (Some(a), Some(v)) => Some(a.max(v)),
            _ => None,
        };
    }
    if legal.is_empty() || any_ambiguous || interlude.is_some() {
        return;
    }
    if let Some(want) = expected_best {
        st.values_compared.fetch_add(limit_ms.is_none() as u64, Ordering::Relaxed);
        let wc = classify(want);
        let gc = classify(score);
        if wc != gc {
            rep.violation(
                format!("C09 {} score", sig_tail),
                format!("{}: depth-1 score {} ({:?}) but with third occurrences valued as draws the value is {} ({:?})", sig_tail, score, gc, want, wc),
                args.clone(),
                J::obj().set("moves", values.iter().map(|(m, v, d)| format!("{}={:?}{}", m.uci(), v, if *d { " (third occurrence)" } else { "" })).collect::<Vec<_>>()),
            );
            return;
        }
        if let Some(em) = mv {
            let em = eng::mv_of(&em);
            if let Some((_, Some(v), _)) = values.iter().find(|(m, _, _)| *m == em) {
                let ok = match wc {
                    Class::Lost => true,
                    Class::Won => classify(*v) == Class::Won,
                    Class::Exact(x) => *v == x,
                };
                if !ok {
                    rep.violation(
                        format!("C09 {} bestmove", sig_tail),
                        format!("{}: depth-1 search returned {} worth {} but the position is worth {}", sig_tail, em.uci(), v, want),
                        args,
                        J::Null,
                    );
                }
            }
        }
    }
}


// ---------------------------------------------------------------------------------------------
// Long games. The enumerated histories above are at most a dozen plies long; a game record can
// be hundreds. A long history is built for EVERY gap length g in 0..=G: the start position S
// occurs twice, then g plies pass in which no position occurs twice (so the game is legal under
// the fivefold rule however long it is), then the shortest way back to a predecessor of S through
// positions not yet seen. At the root one move recreates S a third time (must be a draw), the
// others lead to positions seen once or never (must not be). Two shapes: both occurrences of S
// early (then the gap), or the gap split around the second occurrence.

pub struct LongFamily {
    pub name: &'static str,
    pub start: &'static str,
    /// squares of the pieces that wander at the start (they keep wandering; nothing else moves)
    pub movers: &'static [&'static str],
    /// squares the wandering pieces may move to (keeps the wander graph small: the way home is
    /// found by breadth-first search over it)
    pub region: &'static [&'static str],
    /// largest gap of the thorough tier (the greedy wander runs out of unseen positions beyond it)
    pub gmax_thorough: usize,
}

pub const LONG_FAMILIES: &[LongFamily] = &[
    LongFamily {
        name: "K+R v k: rook on the a-c files, kings near e1 / e8",
        start: "4k3/8/8/8/8/8/8/R3K3 w - - 0 1",
        movers: &["a1", "e1", "e8"],
        region: &["a1", "a2", "a3", "a4", "a5", "a6", "b1", "b2", "b3", "b4", "b5", "b6", "c1", "c2", "c3", "c4", "c5", "c6", "e1", "f1", "e2", "f2", "g1", "g2", "e8", "f8", "e7", "f7", "g8", "g7"],
        gmax_thorough: 400,
    },
    LongFamily {
        name: "start position, the four knights wander (castling rights stay)",
        start: "startpos",
        movers: &["b1", "g1", "b8", "g8"],
        region: &["b1", "a3", "c3", "g1", "f3", "h3", "b8", "a6", "c6", "g8", "f6", "h6", "d5", "e5", "d4", "e4", "b5", "g5", "b4", "g4"],
        gmax_thorough: 240,
    },
    LongFamily {
        name: "queen ending, queens and kings wander",
        start: "6k1/5ppp/8/8/8/8/1q3PPP/3Q2K1 w - - 0 1",
        movers: &["d1", "g1", "b2", "g8"],
        region: &["d1", "c1", "b1", "e1", "f1", "g1", "h1", "b2", "a2", "c2", "a1", "a3", "b3", "c3", "b4", "g8", "f8", "h8", "d2", "e2", "d3"],
        gmax_thorough: 400,
    },
];

/// Reversible moves of the wandering pieces: legal, no capture, by a piece that started on a
/// mover square (tracked by following the piece), not a pawn move, not castling.
fn wander_moves(p: &Pos, movers: &[u8], region: &[u8]) -> Vec<Mv> {
    p.legal_moves().into_iter().filter(|m| movers.contains(&m.from) && region.contains(&m.to) && !p.is_capture(*m) && m.promo.is_none() && !(p.sq[m.from as usize].map(|x| x.1) == Some(crate::refchess::Kind::K) && (m.from as i32 % 8 - m.to as i32 % 8).abs() == 2)).collect()
}

fn follow(movers: &[u8], m: Mv) -> Vec<u8> {
    movers.iter().map(|s| if *s == m.from { m.to } else { *s }).collect()
}

/// Shortest wander path from (p, movers) to the position with key `target`, never entering a
/// position of `visited` (the target itself excepted). BFS, bounded.
fn path_to(p: &Pos, movers: &[u8], region: &[u8], target: &EKey, visited: &std::collections::HashSet<EKey>, max_states: usize) -> Option<Vec<Mv>> {
    use std::collections::{HashMap, VecDeque};
    let k0 = eng::key_of_pos(p);
    let mut prev: HashMap<EKey, (EKey, Mv)> = HashMap::new();
    let mut q: VecDeque<(Pos, Vec<u8>, EKey)> = VecDeque::new();
    q.push_back((p.clone(), movers.to_vec(), k0));
    let mut seen: std::collections::HashSet<EKey> = std::collections::HashSet::new();
    seen.insert(k0);
    while let Some((cur, mv, ck)) = q.pop_front() {
        if seen.len() > max_states {
            return None;
        }
        for m in wander_moves(&cur, &mv, region) {
            let n = cur.make(m);
            let nk = eng::key_of_pos(&n);
            if nk == *target {
                let mut path = vec![m];
                let mut k = ck;
                while k != k0 {
                    let (pk, pm) = prev[&k];
                    path.push(pm);
                    k = pk;
                }
                path.reverse();
                return Some(path);
            }
            if visited.contains(&nk) || !seen.insert(nk) {
                continue;
            }
            prev.insert(nk, (ck, m));
            q.push_back((n, follow(&mv, m), nk));
        }
    }
    None
}

/// g plies through positions never seen before (greedy, deterministic: the first wander move to
/// an unseen position from which some further unseen move exists). Returns fewer if stuck.
fn wander(p: &mut Pos, movers: &mut Vec<u8>, region: &[u8], visited: &mut std::collections::HashSet<EKey>, g: usize, out: &mut Vec<Mv>) -> usize {
    let mut done = 0;
    while done < g {
        let mut chosen = None;
        for m in wander_moves(p, movers, region) {
            let n = p.make(m);
            let nk = eng::key_of_pos(&n);
            if visited.contains(&nk) {
                continue;
            }
            let nm = follow(movers, m);
            // keep a way on: some unseen continuation must exist
            if wander_moves(&n, &nm, region).iter().any(|x| !visited.contains(&eng::key_of_pos(&n.make(*x)))) {
                chosen = Some((m, n, nk, nm));
                break;
            }
        }
        match chosen {
            None => break,
            Some((m, n, nk, nm)) => {
                out.push(m);
                visited.insert(nk);
                *p = n;
                *movers = nm;
                done += 1;
            }
        }
    }
    done
}

/// The long history for gap g and shape (false: S, cycle back to S, gap g, home; true: S, gap
/// g/2, back to S, gap g - g/2, home). None if no such game exists within the search bounds.
pub fn long_history(f: &LongFamily, g: usize, split: bool) -> Option<Vec<Mv>> {
    let s0 = start_pos(f.start);
    let sk = eng::key_of_pos(&s0);
    let mut movers: Vec<u8> = f.movers.iter().map(|t| crate::refchess::parse_sq(t).unwrap()).collect();
    let region: Vec<u8> = f.region.iter().map(|t| crate::refchess::parse_sq(t).unwrap()).collect();
    let region = &region[..];
    let mut p = s0.clone();
    let mut visited = std::collections::HashSet::new();
    visited.insert(sk);
    let mut h: Vec<Mv> = Vec::new();
    if split {
        if wander(&mut p, &mut movers, region, &mut visited, g / 2, &mut h) < g / 2 {
            return None;
        }
    }
    // second occurrence of S
    let back = path_to(&p, &movers, region, &sk, &visited, 400_000)?;
    for m in &back {
        p = p.make(*m);
        movers = follow(&movers, *m);
        visited.insert(eng::key_of_pos(&p));
        h.push(*m);
    }
    let rest = if split { g - g / 2 } else { g };
    if wander(&mut p, &mut movers, region, &mut visited, rest, &mut h) < rest {
        return None;
    }
    // home: up to, not including, the move that recreates S
    let home = path_to(&p, &movers, region, &sk, &visited, 400_000)?;
    for m in &home[..home.len() - 1] {
        h.push(*m);
    }
    Some(h)
}

pub fn run(tier: &str, seed: u64, out: &str) {
    let rep = Report::new("C09", tier, seed);
    let thorough = tier == "thorough";
    if let Err(e) = crate::refchess::self_test(3) {
        eprintln!("MACHINERY ERROR: {}", e);
        std::process::exit(2);
    }
    crate::watch::start_default("C09", "model_checking", tier, seed, out);
    DEEP_DEPTH.store(if thorough { 4 } else { 3 }, Ordering::Relaxed);
    DEEP_PAIRS.store(thorough as u64, Ordering::Relaxed);
    let cache = RefCache::new(200_000);
    let st = Stats {
        limited: AtomicU64::new(0),
        long_histories: AtomicU64::new(0),
        deep_nodes: AtomicU64::new(0),
        deep_plain: AtomicU64::new(0),
        deep_draws: AtomicU64::new(0),
        deep_once: AtomicU64::new(0),
        histories: AtomicU64::new(0),
        candidates: AtomicU64::new(0),
        draws_expected: AtomicU64::new(0),
        once_seen: AtomicU64::new(0),
        ambiguous: AtomicU64::new(0),
        values_compared: AtomicU64::new(0),
        child_values_judged: AtomicU64::new(0),
    };
    let mut parts = Vec::new();
    let mut samples = Vec::new();
    for s in STARTS {
        if rep.saturated() {
            break;
        }
        let p0 = start_pos(s.start);
        if let Err(e) = p0.validity() {
            eprintln!("MACHINERY ERROR: C09 start {:?}: {}", s.start, e);
            std::process::exit(2);
        }
        let alphabet: Vec<Mv> = s.alphabet.iter().map(|t| Mv::parse(t).unwrap()).collect();
        let l = if thorough { s.len_thorough } else { s.len_quick };
        DEEP_DEPTH.store(if thorough { s.deep_quick + 1 } else { s.deep_quick }, Ordering::Relaxed);
        let mut hs = Vec::new();
        histories(&p0, &alphabet, l, &mut Vec::new(), &mut hs);
        // vacuity guard: every move of the alphabet must occur in some enumerated history
        for m in &alphabet {
            if !hs.iter().any(|h| h.contains(m)) {
                eprintln!("MACHINERY ERROR: C09 start {:?}: alphabet move {} is never legal within {} plies", s.start, m.uci(), l);
                std::process::exit(2);
            }
        }
        let before = st.draws_expected.load(Ordering::Relaxed);
        par_map_init(&hs, || None, |fl, h| check_history(fl, &cache, &rep, &st, s.start, None, h));
        let n_single = hs.len();

        // pairs: an earlier position command (with a history full of repetitions, or any short
        // one) must not count towards the later command's game
        let short: Vec<Vec<Mv>> = hs.iter().filter(|h| h.len() <= if thorough { 4 } else { 3 }).cloned().collect();
        let longest: Vec<Vec<Mv>> = hs.iter().filter(|h| h.len() == l).take(if thorough { 40 } else { 12 }).cloned().collect();
        let mut pairs: Vec<(Vec<Mv>, Vec<Mv>)> = Vec::new();
        for a in short.iter().chain(longest.iter()) {
            for b in short.iter() {
                pairs.push((a.clone(), b.clone()));
            }
        }
        // and the reverse: a short earlier command, then a long one
        for a in short.iter().take(8) {
            for b in longest.iter() {
                pairs.push((a.clone(), b.clone()));
            }
        }
        par_map_init(&pairs, || None, |fl, (a, b)| check_history(fl, &cache, &rep, &st, s.start, Some(a), b));
        let draws = st.draws_expected.load(Ordering::Relaxed) - before;
        eprintln!("[C09] {}: {} histories (length <= {}), {} command pairs, {} third-occurrence candidates ({:.1}s)", s.name, n_single, l, pairs.len(), draws, rep.elapsed());
        if let Some(h) = hs.iter().rev().find(|h| h.len() == l) {
            samples.push(J::Str(format!("ucinewgame | {} | depth-1 search with the repetition trace on", command(s.start, h))));
        }
        parts.push(
            J::obj()
                .set("start", s.start)
                .set("name", s.name)
                .set("alphabet", s.alphabet.to_vec())
                .set("max_history_length", l)
                .set("histories", n_single)
                .set("position_command_pairs", pairs.len())
                .set("third_occurrence_candidates", draws),
        );
    }
    // ---- long games: every gap length
    let mut long_parts = Vec::new();
    for f in LONG_FAMILIES {
        if rep.saturated() {
            break;
        }
        let gmax: usize = if thorough { f.gmax_thorough } else { 130 };
        DEEP_DEPTH.store(if f.start == "startpos" { 3 } else { 4 } + thorough as u64, Ordering::Relaxed);
        let mut cases: Vec<(usize, bool)> = Vec::new();
        for g in 0..=gmax {
            cases.push((g, false));
            cases.push((g, true));
        }
        let before = st.draws_expected.load(Ordering::Relaxed);
        let built: Vec<Option<usize>> = par_map_init(
            &cases,
            || None,
            |fl, (g, split)| match long_history(f, *g, *split) {
                Some(h) => {
                    check_history(fl, &cache, &rep, &st, f.start, None, &h);
                    Some(h.len())
                }
                None => None,
            },
        );
        let n_built = built.iter().filter(|x| x.is_some()).count();
        let longest = built.iter().filter_map(|x| *x).max().unwrap_or(0);
        st.long_histories.fetch_add(n_built as u64, Ordering::Relaxed);
        let draws = st.draws_expected.load(Ordering::Relaxed) - before;
        eprintln!("[C09] long games, {}: gaps 0..={} x 2 shapes, {} histories built (longest {} plies), {} third-occurrence candidates ({:.1}s)", f.name, gmax, n_built, longest, draws, rep.elapsed());
        if n_built * 10 < cases.len() * 9 {
            eprintln!("MACHINERY ERROR: C09 long games {:?}: only {} of {} histories could be built", f.name, n_built, cases.len());
            std::process::exit(2);
        }
        long_parts.push(J::obj().set("family", f.name).set("start", f.start).set("gap_lengths", format!("every g in 0..={}", gmax)).set("shapes", 2u64).set("histories_built", n_built).set("histories_that_could_not_be_built", cases.len() - n_built).set("longest_history_plies", longest).set("third_occurrence_candidates", draws));
    }
    let h = st.histories.load(Ordering::Relaxed);
    let cov = J::obj()
        .set("long_games", J::obj().set("rule", "for every gap length g: the start position occurs twice, g plies pass through positions that never occur twice (greedy deterministic wander of the listed pieces), then the shortest way back through unseen positions to a predecessor of the start position; at the root one move recreates it a third time. Two shapes (both occurrences before the gap / the gap split around the second occurrence)").set("families", J::Arr(long_parts)))
        .set("searches_repeated_under_a_time_limit_that_is_never_reached", st.limited.load(Ordering::Relaxed))
        .set("states", h)
        .set("transitions", st.candidates.load(Ordering::Relaxed))
        .set("traces_validated_against_impl", h)
        .set("evaluations", h)
        .set("distinct_nontrivial", st.draws_expected.load(Ordering::Relaxed) + st.once_seen.load(Ordering::Relaxed))
        .set("cases_with_a_command_between_position_and_go", INTERLUDE_CASES.load(Ordering::Relaxed))
        .set("commands_between_position_and_go", INTERLUDES.iter().map(|c| c.to_string()).collect::<Vec<_>>())
        .set("rule", "a case = one command history (ucinewgame, optional earlier position command, position with a move list) followed by the real depth-1 search (for histories with a third occurrence among the successors also: one more command, then a real `go depth 1` through the handler); every successor of the root is a candidate; non-trivial candidates are those whose position occurred once (must not be a draw) or at least twice (must be a draw) earlier in the game")
        .set("histories", h)
        .set("candidate_successors", st.candidates.load(Ordering::Relaxed))
        .set("candidates_that_are_third_occurrences", st.draws_expected.load(Ordering::Relaxed))
        .set("candidates_seen_exactly_once_before", st.once_seen.load(Ordering::Relaxed))
        .set("candidates_not_judged_en_passant_ambiguity", st.ambiguous.load(Ordering::Relaxed))
        .set("depth1_values_compared", st.values_compared.load(Ordering::Relaxed))
        .set("values_returned_by_third_occurrence_children_judged", st.child_values_judged.load(Ordering::Relaxed))
        .set("deeper_search", J::obj().set("depth", if thorough { "4 (small material: 5)" } else { "3 (small material: 4)" }).set("applied_to", if thorough { "every case" } else { "every single-command case (command pairs get the depth-1 search only)" }).set("rule", "after the depth-1 search the same engine searches the same root to this depth with the repetition trace on; the decision the real negamax takes at every visited node of ply >= 1 must equal 'occurred at least twice in the game given by the command (root included)'").set("node_visits_at_positions_never_seen_in_the_game", st.deep_plain.load(Ordering::Relaxed)).set("decisions_judged_at_positions_matching_a_game_position", st.deep_nodes.load(Ordering::Relaxed)).set("of_which_third_occurrences", st.deep_draws.load(Ordering::Relaxed)).set("of_which_seen_exactly_once", st.deep_once.load(Ordering::Relaxed)))
        .set("starts", J::Arr(parts))
        .set("samples", J::Arr(samples))
        .set("exhaustive", false)
        .set("bound", "every legal sequence over each start's alphabet up to the listed length");
    rep.finish(
        "model_checking",
        cov,
        vec![
            "same position = placement, side to move, castling rights, en-passant target; where the FIDE reading (target counts only if capturable) disagrees about a candidate, that candidate is not judged".into(),
            "every case starts with ucinewgame, so no search result cached before the history existed is used".into(),
            "quiescence values of successors as in C05".into(),
        ],
        out,
    );
}

pub fn replay(start: &str, moves: &str, prev: Option<&str>) -> i32 {
    let rep = Report::new("C09", "quick", 0);
    let cache = RefCache::new(200_000);
    let st = Stats {
        limited: AtomicU64::new(0),
        long_histories: AtomicU64::new(0),
        deep_nodes: AtomicU64::new(0),
        deep_plain: AtomicU64::new(0),
        deep_draws: AtomicU64::new(0),
        deep_once: AtomicU64::new(0),
        histories: AtomicU64::new(0),
        candidates: AtomicU64::new(0),
        draws_expected: AtomicU64::new(0),
        once_seen: AtomicU64::new(0),
        ambiguous: AtomicU64::new(0),
        values_compared: AtomicU64::new(0),
        child_values_judged: AtomicU64::new(0),
    };
    let parse = |t: &str| -> Vec<Mv> { t.split_whitespace().map(|x| Mv::parse(x).unwrap()).collect() };
    let h = parse(moves);
    let ph = prev.map(parse);
    let mut fl = None;
    check_history(&mut fl, &cache, &rep, &st, start, ph.as_deref(), &h);
    let v = rep.violations.lock().unwrap();
    for x in v.iter() {
        println!("REPLAY-VIOLATION {} :: {}", x.sig, x.text);
    }
    if v.is_empty() {
        println!(
            "REPLAY-OK C09 {} candidates, {} third occurrences, {} ambiguous",
            st.candidates.load(Ordering::Relaxed),
            st.draws_expected.load(Ordering::Relaxed),
            st.ambiguous.load(Ordering::Relaxed)
        );
        0
    } else {
        1
    }
}

#[allow(dead_code)]
fn _unused(_: Side) {}
