//! C15: the transposition table returns only what was stored for that key; deepest wins.
//! Every store sequence up to length L over colliding keys on a fresh real table, against a
//! map model; plus the model state graph explored to fixpoint with every state rebuilt on the
//! real table.

use crate::eng::guard;
use crate::json::J;
use crate::moves::{Move, MoveType};
use crate::par::par_map;
use crate::pieces::Piece;
use crate::report::Report;
use crate::transposition::{Bounds, TranspositionTable};
use std::collections::{HashMap, VecDeque};

/// `retrieve` may hand out the entry by reference or by value: both are the same interface to a user
trait IntoEntry {
    fn into_entry(self) -> Option<crate::transposition::Entry>;
}
impl IntoEntry for Option<&crate::transposition::Entry> {
    fn into_entry(self) -> Option<crate::transposition::Entry> {
        self.copied()
    }
}
impl IntoEntry for Option<crate::transposition::Entry> {
    fn into_entry(self) -> Option<crate::transposition::Entry> {
        self
    }
}

#[derive(Clone, Copy, PartialEq, Debug)]
struct Payload {
    eval: i32,
    mv: Option<Move>,
    bounds: Bounds,
}

#[derive(Clone, Copy, PartialEq, Debug)]
struct Op {
    key: usize,
    depth: u8,
    payload: usize,
}

const N_PAYLOADS: usize = 10;
/// payloads of the exhaustively enumerated base alphabet (the first three)
const N_BASE_PAYLOADS: usize = 3;
const N_KEYS: usize = 5;

fn payloads() -> [Payload; N_PAYLOADS] {
    [
        Payload { eval: 150, mv: Some(Move::new(12, 28, Piece::Pawn, MoveType::Quiet)), bounds: Bounds::Exact },
        Payload { eval: -32767, mv: None, bounds: Bounds::Upper },
        Payload { eval: 77, mv: Some(Move::new(6, 21, Piece::Knight, MoveType::Quiet)), bounds: Bounds::Lower },
        // the wide alphabet: scores at and beyond the search window, mate scores, the i32 range
        Payload { eval: i32::MAX - 1000, mv: Some(Move::new(3, 59, Piece::Queen, MoveType::Capture)), bounds: Bounds::Exact },
        Payload { eval: -(i32::MAX - 1000) + 2, mv: None, bounds: Bounds::Lower },
        Payload { eval: 32767, mv: Some(Move::new(52, 60, Piece::Pawn, MoveType::Promotion)), bounds: Bounds::Upper },
        Payload { eval: -32768, mv: None, bounds: Bounds::Exact },
        Payload { eval: i32::MIN, mv: None, bounds: Bounds::Exact },
        Payload { eval: i32::MAX, mv: Some(Move::new(4, 6, Piece::King, MoveType::Castle)), bounds: Bounds::Lower },
        Payload { eval: 0, mv: None, bounds: Bounds::Exact },
    ]
}

fn keys(seed: u64) -> [u64; N_KEYS + 1] {
    // equal in their low 40 bits (first two), equal in the low 63 bits (first and third): any
    // index derived by truncating the key makes them collide. The fourth is never stored.
    let k = 0x9E37_79B9_7F4A_7C15u64.wrapping_mul(seed.wrapping_add(1)) | 1;
    // then the two ends of the key range; the last is never stored
    [k, k.wrapping_add(1 << 40), k ^ (1 << 63), 0, u64::MAX, k.wrapping_add(1)]
}

fn all_ops() -> Vec<Op> {
    let mut v = Vec::new();
    for key in 0..3 {
        for depth in 0..3u8 {
            for payload in 0..N_BASE_PAYLOADS {
                v.push(Op { key, depth, payload });
            }
        }
    }
    v
}

type Model = [Option<(u8, usize)>; N_KEYS];

fn model_apply(m: &mut Model, op: Op) {
    match m[op.key] {
        Some((d, _)) if d > op.depth => {}
        _ => m[op.key] = Some((op.depth, op.payload)),
    }
}

fn op_text(op: Op) -> String {
    format!("store(key{}, depth {}, payload {})", op.key, op.depth, op.payload)
}

/// Stores the table was seen to have dropped (a retrieve answered nothing although the map model
/// holds an entry). The property allows a lookup to return nothing at any time (a bounded table
/// that evicts, or declines a store, still satisfies it), so this is counted, not judged; the
/// model then continues from what the table really holds.
pub static DROPPED: std::sync::atomic::AtomicU64 = std::sync::atomic::AtomicU64::new(0);
pub static ANSWERED: std::sync::atomic::AtomicU64 = std::sync::atomic::AtomicU64::new(0);

/// Runs one sequence on a fresh table; after every operation compares every retrieve.
fn run_sequence(seq: &[Op], ks: &[u64; N_KEYS + 1], pl: &[Payload; N_PAYLOADS]) -> Result<(), String> {
    let r = guard(|| {
        let mut tt = TranspositionTable::new();
        let mut model: Model = [None; N_KEYS];
        let mut dropped = 0u64;
        let mut answered = 0u64;
        for (i, op) in seq.iter().enumerate() {
            let p = pl[op.payload];
            tt.store(ks[op.key], p.eval, p.mv, op.depth, p.bounds);
            model_apply(&mut model, *op);
            for k in 0..=N_KEYS {
                let got = tt.retrieve(ks[k]).into_entry();
                let want = if k < N_KEYS { model[k] } else { None };
                let same = match (got, want) {
                    (None, None) => true,
                    (Some(e), Some((d, pi))) => {
                        answered += 1;
                        e.hash_key == ks[k] && e.depth == d && e.eval == pl[pi].eval && e.best_move == pl[pi].mv && e.bounds == pl[pi].bounds
                    }
                    (None, Some(_)) => {
                        // "either nothing or the data most recently accepted": nothing is always
                        // a permitted answer; from here on the key counts as absent
                        dropped += 1;
                        model[k] = None;
                        true
                    }
                    (Some(_), None) => false,
                };
                if !same {
                    return Err(format!(
                        "after step {} of [{}]: retrieve(key{}) = {:?}, model says {:?}",
                        i + 1,
                        seq.iter().map(|o| op_text(*o)).collect::<Vec<_>>().join(", "),
                        k,
                        got,
                        want.map(|(d, pi)| (d, pl[pi]))
                    ));
                }
            }
        }
        if dropped > 0 {
            DROPPED.fetch_add(dropped, std::sync::atomic::Ordering::Relaxed);
        }
        ANSWERED.fetch_add(answered, std::sync::atomic::Ordering::Relaxed);
        Ok(())
    });
    match r {
        Ok(x) => x,
        Err(e) => Err(e),
    }
}

fn seq_arg(seq: &[Op]) -> String {
    seq.iter().map(|o| format!("{}.{}.{}", o.key, o.depth, o.payload)).collect::<Vec<_>>().join(",")
}

pub fn run(tier: &str, seed: u64, out: &str) {
    let rep = Report::new("C15", tier, seed);
    let ks = keys(seed);
    let pl = payloads();
    let ops = all_ops();
    let max_len = if tier == "thorough" { 6 } else { 5 };
    // enumerate sequences by their first two operations (729 work units), DFS below
    let mut units = Vec::new();
    for a in 0..ops.len() {
        for b in 0..ops.len() {
            units.push((a, b));
        }
    }
    let counts: Vec<u64> = par_map(&units, |&(a, b)| {
        let mut n = 0u64;
        let mut seq = vec![ops[a], ops[b]];
        fn rec(seq: &mut Vec<Op>, ops: &[Op], max_len: usize, ks: &[u64; N_KEYS + 1], pl: &[Payload; N_PAYLOADS], rep: &Report, n: &mut u64) {
            // each complete sequence is run on its own fresh table (prefixes are checked as
            // part of the longer runs, since every step is compared)
            if seq.len() == max_len {
                *n += 1;
                if let Err(e) = run_sequence(seq, ks, pl) {
                    let first_bad = seq.len();
                    let _ = first_bad;
                    rep.violation(format!("C15 seq={}", seq_arg(seq)), e, vec!["c15-one".into(), "--seq".into(), seq_arg(seq), "--seed".into(), rep.seed.to_string()], J::Null);
                }
                return;
            }
            for op in ops {
                if rep.saturated() {
                    return;
                }
                seq.push(*op);
                rec(seq, ops, max_len, ks, pl, rep, n);
                seq.pop();
            }
        }
        rec(&mut seq, &ops, max_len, &ks, &pl, &rep, &mut n);
        n
    });
    let sequences: u64 = counts.iter().sum();
    // short sequences (length 1) separately
    for op in &ops {
        if let Err(e) = run_sequence(&[*op], &ks, &pl) {
            rep.violation(format!("C15 seq={}", seq_arg(&[*op])), e, vec!["c15-one".into(), "--seq".into(), seq_arg(&[*op]), "--seed".into(), seed.to_string()], J::Null);
        }
    }

    // ---- wide alphabet, short sequences: all five keys (the ends of the key range included),
    // depths up to 255, payloads with scores at and beyond the search window and the i32 range
    let wide_len = if tier == "thorough" { 3 } else { 2 };
    let mut wide_ops = Vec::new();
    for key in 0..N_KEYS {
        for depth in [0u8, 1, 2, 3, 64, 255] {
            for payload in 0..N_PAYLOADS {
                wide_ops.push(Op { key, depth, payload });
            }
        }
    }
    let wide_units: Vec<usize> = (0..wide_ops.len()).collect();
    let wide_counts: Vec<u64> = par_map(&wide_units, |&a| {
        let mut n = 0u64;
        let mut seq = vec![wide_ops[a]];
        fn rec(seq: &mut Vec<Op>, ops: &[Op], max_len: usize, ks: &[u64; N_KEYS + 1], pl: &[Payload; N_PAYLOADS], rep: &Report, n: &mut u64) {
            if seq.len() == max_len {
                *n += 1;
                if let Err(e) = run_sequence(seq, ks, pl) {
                    rep.violation(format!("C15 seq={}", seq_arg(seq)), e, vec!["c15-one".into(), "--seq".into(), seq_arg(seq), "--seed".into(), rep.seed.to_string()], J::Null);
                }
                return;
            }
            for op in ops {
                if rep.saturated() {
                    return;
                }
                seq.push(*op);
                rec(seq, ops, max_len, ks, pl, rep, n);
                seq.pop();
            }
        }
        rec(&mut seq, &wide_ops, wide_len, &ks, &pl, &rep, &mut n);
        n
    });
    let wide_sequences: u64 = wide_counts.iter().sum();

    // model state graph to fixpoint; every state rebuilt on the real table by its shortest path
    let mut seen: HashMap<Model, Vec<Op>> = HashMap::new();
    let mut queue: VecDeque<Model> = VecDeque::new();
    seen.insert([None; N_KEYS], vec![]);
    queue.push_back([None; N_KEYS]);
    let mut transitions = 0u64;
    let mut validated = 0u64;
    while let Some(state) = queue.pop_front() {
        let path = seen[&state].clone();
        for op in &ops {
            let mut next = state;
            model_apply(&mut next, *op);
            transitions += 1;
            let mut p2 = path.clone();
            p2.push(*op);
            match run_sequence(&p2, &ks, &pl) {
                Ok(()) => validated += 1,
                Err(e) => rep.violation(format!("C15 seq={}", seq_arg(&p2)), e, vec!["c15-one".into(), "--seq".into(), seq_arg(&p2), "--seed".into(), seed.to_string()], J::Null),
            }
            if !seen.contains_key(&next) {
                seen.insert(next, p2);
                queue.push_back(next);
            }
        }
    }
    let cov = J::obj()
        .set("states", seen.len())
        .set("transitions", transitions)
        .set("traces_validated_against_impl", validated + sequences + wide_sequences)
        .set("evaluations", sequences + wide_sequences + ops.len() as u64)
        .set("distinct_nontrivial", sequences)
        .set("sequence_length", max_len)
        .set("wide_alphabet", J::obj().set("operations", wide_ops.len()).set("sequence_length", wide_len).set("sequences", wide_sequences).set("alphabet", "store x {the 3 colliding keys, key 0, key 2^64-1} x {depth 0,1,2,3,64,255} x {10 payloads: the 3 above + mate scores +-(i32::MAX-1000), +32767, -32768, i32::MIN, i32::MAX, 0; all move types}"))
        .set("alphabet", "store x {3 keys equal in their low 40 / low 63 bits} x {depth 0,1,2} x {3 payloads: Exact with a move, Upper without, Lower with another move}; after every operation retrieve on the 3 keys and on a never-stored key")
        .set("rule", format!("every sequence of exactly {} stores ({}^{}), each on a fresh real table, every step compared with a map model (replace iff new depth >= stored depth); plus every transition of the {}-state model graph replayed on a fresh real table", max_len, ops.len(), max_len, seen.len()))
        .set("exhaustive", true)
        .set("retrieves_answered_with_an_entry", ANSWERED.load(std::sync::atomic::Ordering::Relaxed))
        .set("retrieves_answered_with_nothing_although_the_model_holds_an_entry", DROPPED.load(std::sync::atomic::Ordering::Relaxed))
        .set("note_on_dropped_entries", "a lookup may answer nothing at any time (the property allows it: a bounded table may evict or decline); such answers are counted above and the model continues from what the table holds. An answer that is an entry must be exactly the entry the map model holds for that key.")
        .set("samples", J::Arr(vec![
            J::Str(seq_arg(&[ops[0], ops[7], ops[3]])),
            J::Str("key0=".to_string() + &format!("{:#018x} key1={:#018x} key2={:#018x} never={:#018x}", ks[0], ks[1], ks[2], ks[3])),
        ]));
    rep.finish("model_checking", cov, vec!["keys, depths and payloads outside the alphabet behave like those inside it (the table is a HashMap keyed by the full 64-bit key)".into()], out);
}

pub fn replay(seq: &str, seed: u64) -> i32 {
    let ks = keys(seed);
    let pl = payloads();
    let ops: Vec<Op> = seq
        .split(',')
        .map(|t| {
            if t.contains('.') {
                let f: Vec<&str> = t.split('.').collect();
                Op { key: f[0].parse().unwrap(), depth: f[1].parse().unwrap(), payload: f[2].parse().unwrap() }
            } else {
                let b = t.as_bytes();
                Op { key: (b[0] - b'0') as usize, depth: b[1] - b'0', payload: (b[2] - b'0') as usize }
            }
        })
        .collect();
    match run_sequence(&ops, &ks, &pl) {
        Ok(()) => {
            println!("REPLAY-OK C15 {}", seq);
            0
        }
        Err(e) => {
            println!("REPLAY-VIOLATION C15 {}", e);
            1
        }
    }
}
