//! C15: the transposition table returns only what was stored for that key; deepest wins.
//! Every store sequence up to length L over colliding keys on a fresh real table, against a
//! map model; plus the model state graph explored to fixpoint with every state rebuilt on the
//! real table.

use crate::eng::guard;
use crate::json::J;
use crate::moves::{Move, MoveType};
use crate::par::par_map;
use crate::pieces::Piece;
use crate::report::Report;
use crate::transposition::{Bounds, TranspositionTable};
use std::collections::{HashMap, VecDeque};

/// `retrieve` may hand out the entry by reference or by value: both are the same interface to a user
trait IntoEntry {
    fn into_entry(self) -> Option<crate::transposition::Entry>;
}
impl IntoEntry for Option<&crate::transposition::Entry> {
    fn into_entry(self) -> Option<crate::transposition::Entry> {
        self.copied()
    }
}
impl IntoEntry for Option<crate::transposition::Entry> {
    fn into_entry(self) -> Option<crate::transposition::Entry> {
        self
    }
}

#[derive(Clone, Copy, PartialEq, Debug)]
struct Payload {
    eval: i32,
    mv: Option<Move>,
    bounds: Bounds,
}

#[derive(Clone, Copy, PartialEq, Debug)]
struct Op {
    key: usize,
    depth: u8,
    payload: usize,
}

const N_PAYLOADS: usize = 10;
/// payloads of the exhaustively enumerated base alphabet (the first three)
const N_BASE_PAYLOADS: usize = 3;
const N_KEYS: usize = 5;

fn payloads() -> [Payload; N_PAYLOADS] {
    [
        Payload { eval: 150, mv: Some(Move::new(12, 28, Piece::Pawn, MoveType::Quiet)), bounds: Bounds::Exact },
        Payload { eval: -32767, mv: None, bounds: Bounds::Upper },
        Payload { eval: 77, mv: Some(Move::new(6, 21, Piece::Knight, MoveType::Quiet)), bounds: Bounds::Lower },
        // the wide alphabet: scores at and beyond the search window, mate scores, the i32 range
        Payload { eval: i32::MAX - 1000, mv: Some(Move::new(3, 59, Piece::Queen, MoveType::Capture)), bounds: Bounds::Exact },
        Payload { eval: -(i32::MAX - 1000) + 2, mv: None, bounds: Bounds::Lower },
        Payload { eval: 32767, mv: Some(Move::new(52, 60, Piece::Pawn, MoveType::Promotion)), bounds: Bounds::Upper },
        Payload { eval: -32768, mv: None, bounds: Bounds::Exact },
        Payload { eval: i32::MIN, mv: None, bounds: Bounds::Exact },
        Payload { eval: i32::MAX, mv: Some(Move::new(4, 6, Piece::King, MoveType::Castle)), bounds: Bounds::Lower },
        Payload { eval: 0, mv: None, bounds: Bounds::Exact },
    ]
}

fn keys(seed: u64) -> [u64; N_KEYS + 1] {
    // equal in their low 40 bits (first two), equal in the low 63 bits (first and third): any
    // index derived by truncating the key makes them collide. The fourth is never stored.
    let k = 0x9E37_79B9_7F4A_7C15u64.wrapping_mul(seed.wrapping_add(1)) | 1;
    // then the two ends of the key range; the last is never stored
    [k, k.wrapping_add(1 << 40), k ^ (1 << 63), 0, u64::MAX, k.wrapping_add(1)]
}

fn all_ops() -> Vec<Op> {
    let mut v = Vec::new();
    for key in 0..3 {
        for depth in 0..3u8 {
            for payload in 0..N_BASE_PAYLOADS {
                v.push(Op { key, depth, payload });
            }
        }
    }
    v
}

type Model = [Option<(u8, usize)>; N_KEYS];

fn model_apply(m: &mut Model, op: Op) {
    match m[op.key] {
        Some((d, _)) if d > op.depth => {}
        _ => m[op.key] = Some((op.depth, op.payload)),
    }
}

fn op_text(op: Op) -> String {
    format!("store(key{}, depth {}, payload {})", op.key, op.depth, op.payload)
}

/// Stores the table was seen to have dropped (a retrieve answered nothing although the map model
/// holds an entry). The property allows a lookup to return nothing at any time (a bounded table
/// that evicts, or declines a store, still satisfies it), so this is counted, not judged; the
/// model then continues from what the table really holds.
pub static DROPPED: std::sync::atomic::AtomicU64 = std::sync::atomic::AtomicU64::new(0);
pub static ANSWERED: std::sync::atomic::AtomicU64 = std::sync::atomic::AtomicU64::new(0);

/// Runs one sequence on a fresh table; after every operation compares every retrieve.
fn run_sequence(seq: &[Op], ks: &[u64; N_KEYS + 1], pl: &[Payload; N_PAYLOADS]) -> Result<(), String> {
    let r = guard(|| {
        let mut tt = TranspositionTable::new();
        let mut model: Model = [None; N_KEYS];
        let mut dropped = 0u64;
        let mut answered = 0u64;
        for (i, op) in seq.iter().enumerate() {
            let p = pl[op.payload];
            tt.store(ks[op.key], p.eval, p.mv, op.depth, p.bounds);
            model_apply(&mut model, *op);
            for k in 0..=N_KEYS {
                let got = tt.retrieve(ks[k]).into_entry();
                let want = if k < N_KEYS { model[k] } else { None };
                let same = match (got, want) {
                    (None, None) => true,
                    (Some(e), Some((d, pi))) => {
                        answered += 1;
                        e.hash_key == ks[k] && e.depth == d && e.eval == pl[pi].eval && e.best_move == pl[pi].mv && e.bounds == pl[pi].bounds
                    }
                    (None, Some(_)) => {
                        // "either nothing or the data most recently accepted": nothing is always
                        // a permitted answer; from here on the key counts as absent
                        dropped += 1;
                        model[k] = None;
                        true
                    }
                    (Some(_), None) => false,
                };
                if !same {
                    return Err(format!(
                        "after step {} of [{}]: retrieve(key{}) = {:?}, model says {:?}",
                        i + 1,
                        seq.iter().map(|o| op_text(*o)).collect::<Vec<_>>().join(", "),
                        k,
                        got,
                        want.map(|(d, pi)| (d, pl[pi]))
                    ));
                }
            }
        }
        if dropped > 0 {
            DROPPED.fetch_add(dropped, std::sync::atomic::Ordering::Relaxed);
        }
        ANSWERED.fetch_add(answered, std::sync::atomic::Ordering::Relaxed);
        Ok(())
    });
    match r {
        Ok(x) => x,
        Err(e) => Err(e),
    }
}

fn seq_arg(seq: &[Op]) -> String {
    seq.iter().map(|o| format!("{}.{}.{}", o.key, o.depth, o.payload)).collect::<Vec<_>>().join(",")
}

pub fn run(tier: &str, seed: u64, out: &str) {
    let rep = Report::new("C15", tier, seed);
    let ks = keys(seed);
    let pl = payloads();
    let ops = all_ops();
    let max_len = if tier == "thorough" { 6 } else { 5 };
    // enumerate sequences by their first two operations (729 work units), DFS below
    let mut units = Vec::new();
    for a in 0..ops.len() {
        for b in 0..ops.len() {
            units.push((a, b));
        }
    }
    let counts: Vec<u64> = par_map(&units, |&(a, b)| {
        let mut n = 0u64;
        let mut seq = vec![ops[a], ops[b]];
        fn rec(seq: &mut Vec<Op>, ops: &[Op], max_len: usize, ks: &[u64; N_KEYS + 1], pl: &[Payload; N_PAYLOADS], rep: &Report, n: &mut u64) {
            // each complete sequence is run on its own fresh table (prefixes are checked as
            // part of the longer runs, since every step is compared)
            if seq.len() == max_len {
                *n += 1;
                if let Err(e) = run_sequence(seq, ks, pl) {
                    let first_bad = seq.len();
                    let _ = first_bad;
                    rep.violation(format!("C15 seq={}", seq_arg(seq)), e, vec!["c15-one".into(), "--seq".into(), seq_arg(seq), "--seed".into(), rep.seed.to_string()], J::Null);
                }
                return;
            }
            for op in ops {
                if rep.saturated() {
                    return;
                }
                seq.push(*op);
                rec(seq, ops, max_len, ks, pl, rep, n);
                seq.pop();
            }
        }
        rec(&mut seq, &ops, max_len, &ks, &pl, &rep, &mut n);
        n
    });
    let sequences: u64 = counts.iter().sum();
    // short sequences (length 1) separately
    for op in &ops {
        if let Err(e) = run_sequence(&[*op], &ks, &pl) {
            rep.violation(format!("C15 seq={}", seq_arg(&[*op])), e, vec!["c15-one".into(), "--seq".into(), seq_arg(&[*op]), "--seed".into(), seed.to_string()], J::Null);
        }
    }

    // ---- wide alphabet, short sequences: all five keys (the ends of the key range included),
    // depths up to 255, payloads with scores at and beyond the search window and the i32 range
    let wide_len = if tier == "thorough" { 3 } else { 2 };
    let mut wide_ops = Vec::new();
    for key in 0..N_KEYS {
        for depth in [0u8, 1, 2, 3, 64, 255] {
            for payload in 0..N_PAYLOADS {
                wide_ops.push(Op { key, depth, payload });
            }
        }
    }
    let wide_units: Vec<usize> = (0..wide_ops.len()).collect();
    let wide_counts: Vec<u64> = par_map(&wide_units, |&a| {
        let mut n = 0u64;
        let mut seq = vec![wide_ops[a]];
        fn rec(seq: &mut Vec<Op>, ops: &[Op], max_len: usize, ks: &[u64; N_KEYS + 1], pl: &[Payload; N_PAYLOADS], rep: &Report, n: &mut u64) {
            if seq.len() == max_len {
                *n += 1;
                if let Err(e) = run_sequence(seq, ks, pl) {
                    rep.violation(format!("C15 seq={}", seq_arg(seq)), e, vec!["c15-one".into(), "--seq".into(), seq_arg(seq), "--seed".into(), rep.seed.to_string()], J::Null);
                }
                return;
            }
            for op in ops {
                if rep.saturated() {
                    return;
                }
                seq.push(*op);
                rec(seq, ops, max_len, ks, pl, rep, n);
                seq.pop();
            }
        }
        rec(&mut seq, &wide_ops, wide_len, &ks, &pl, &rep, &mut n);
        n
    });
    let wide_sequences: u64 = wide_counts.iter().sum();

    // model state graph to fixpoint; every state rebuilt on the real table by its shortest path
    let mut seen: HashMap<Model, Vec<Op>> = HashMap::new();
    let mut queue: VecDeque<Model> = VecDeque::new();
    seen.insert([None; N_KEYS], vec![]);
    queue.push_back([None; N_KEYS]);
    let mut transitions = 0u64;
    let mut validated = 0u64;
    while let Some(state) = queue.pop_front() {
        let path = seen[&state].clone();
        for op in &ops {
            let mut next = state;
            model_apply(&mut next, *op);
            transitions += 1;
            let mut p2 = path.clone();
            p2.push(*op);
            match run_sequence(&p2, &ks, &pl) {
                Ok(()) => validated += 1,
                Err(e) => rep.violation(format!("C15 seq={}", seq_arg(&p2)), e, vec!["c15-one".into(), "--seq".into(), seq_arg(&p2), "--seed".into(), seed.to_string()], J::Null),
            }
            if !seen.contains_key(&next) {
                seen.insert(next, p2);
                queue.push_back(next);
            }
        }
    }
    // ---- long histories (a table's behaviour may change once it holds 2^k entries)
    let n_long: u64 = if tier == "thorough" { (1 << 23) + (1 << 16) } else { (1 << 21) + (1 << 16) };
    let long_res: Vec<Result<(u64, u64), String>> = par_map(&[0u8, 1u8], |v| long_history(n_long, seed, *v));
    let mut long_steps = 0u64;
    let mut long_dropped = 0u64;
    for (v, r) in long_res.iter().enumerate() {
        match r {
            Ok((n, d)) => {
                long_steps += n;
                long_dropped += d;
            }
            Err(e) => rep.violation(format!("C15 long-history variant={}", v), e.clone(), vec!["c15-long".into(), "--steps".into(), n_long.to_string(), "--variant".into(), v.to_string(), "--seed".into(), seed.to_string()], J::Null),
        }
    }
    let cov = J::obj()
        .set("long_histories", J::obj().set("steps", long_steps).set("deep_entry_dropped_and_restored", long_dropped).set("rule", "a depth-9 store for one key, then up to the listed number of stores for other distinct keys (pseudo-random keys; consecutive keys); after every one of them the key is read back, a depth-3 store for it is tried and it is read back again: the shallower result must never replace the deeper one and what comes back must be what was stored"))
        .set("states", seen.len())
        .set("transitions", transitions)
        .set("traces_validated_against_impl", validated + sequences + wide_sequences)
        .set("evaluations", sequences + wide_sequences + ops.len() as u64)
        .set("distinct_nontrivial", sequences)
        .set("sequence_length", max_len)
        .set("wide_alphabet", J::obj().set("operations", wide_ops.len()).set("sequence_length", wide_len).set("sequences", wide_sequences).set("alphabet", "store x {the 3 colliding keys, key 0, key 2^64-1} x {depth 0,1,2,3,64,255} x {10 payloads: the 3 above + mate scores +-(i32::MAX-1000), +32767, -32768, i32::MIN, i32::MAX, 0; all move types}"))
        .set("alphabet", "store x {3 keys equal in their low 40 / low 63 bits} x {depth 0,1,2} x {3 payloads: Exact with a move, Upper without, Lower with another move}; after every operation retrieve on the 3 keys and on a never-stored key")
        .set("rule", format!("every sequence of exactly {} stores ({}^{}), each on a fresh real table, every step compared with a map model (replace iff new depth >= stored depth); plus every transition of the {}-state model graph replayed on a fresh real table", max_len, ops.len(), max_len, seen.len()))
        .set("exhaustive", true)
        .set("retrieves_answered_with_an_entry", ANSWERED.load(std::sync::atomic::Ordering::Relaxed))
        .set("retrieves_answered_with_nothing_although_the_model_holds_an_entry", DROPPED.load(std::sync::atomic::Ordering::Relaxed))
        .set("note_on_dropped_entries", "a lookup may answer nothing at any time (the property allows it: a bounded table may evict or decline); such answers are counted above and the model continues from what the table holds. An answer that is an entry must be exactly the entry the map model holds for that key.")
        .set("samples", J::Arr(vec![
            J::Str(seq_arg(&[ops[0], ops[7], ops[3]])),
            J::Str("key0=".to_string() + &format!("{:#018x} key1={:#018x} key2={:#018x} never={:#018x}", ks[0], ks[1], ks[2], ks[3])),
        ]));
    rep.finish("model_checking", cov, vec!["keys, depths and payloads outside the alphabet behave like those inside it (the table is a HashMap keyed by the full 64-bit key)".into()], out);
}

/// Long histories: one deep store for a key, then up to `n_max` stores for other, distinct keys.
/// After EVERY one of them a shallower store for the first key is tried (on a correct table it
/// is declined, so it is free of side effects and can be repeated at every step) and the key is
/// read back: whatever the table does once it holds 2^k entries (a second generation, a resize,
/// ageing), a shallower result must still not replace the deeper one, and what comes back must be
/// what the map model holds. If the table is seen to have dropped the deep entry (allowed), it is
/// stored again and the sweep goes on. Returns (steps done, times the deep entry was dropped).
pub fn long_history(n_max: u64, seed: u64, variant: u8) -> Result<(u64, u64), String> {
    let pl = payloads();
    let key = 0x9E37_79B9_7F4A_7C15u64.wrapping_mul(seed.wrapping_add(3)) | 1;
    let r = guard(|| -> Result<(u64, u64), String> {
        let mut tt = TranspositionTable::new();
        let deep = 9u8;
        let shallow = 3u8;
        tt.store(key, pl[0].eval, pl[0].mv, deep, pl[0].bounds);
        let mut held: Option<(u8, usize)> = Some((deep, 0));
        let mut dropped = 0u64;
        let mut filler = key;
        for i in 1..=n_max {
            // distinct filler keys: odd multiplier walk (variant 1: consecutive keys, which fill
            // a table indexed by the low bits slot after slot)
            filler = if variant == 1 { filler.wrapping_add(2) } else { filler.wrapping_mul(0xD130_2B4F_5A8C_9E6B).wrapping_add(0x1234_5678_9ABC_DEF1) | 1 };
            if filler == key {
                continue;
            }
            let fp = &pl[(i % 3) as usize];
            tt.store(filler, fp.eval, fp.mv, (i % 4) as u8, fp.bounds);
            let same = |e: &crate::transposition::Entry, d: u8, p: usize| e.hash_key == key && e.depth == d && e.eval == pl[p].eval && e.best_move == pl[p].mv && e.bounds == pl[p].bounds;
            // is the deep entry still there after the other key's store? (a bounded table may
            // have evicted it: allowed; it is then stored again and this step ends)
            match (tt.retrieve(key).into_entry(), held) {
                (None, _) => {
                    dropped += 1;
                    tt.store(key, pl[0].eval, pl[0].mv, deep, pl[0].bounds);
                    held = tt.retrieve(key).into_entry().map(|_| (deep, 0));
                    continue;
                }
                (Some(e), Some((d, p))) => {
                    if !same(&e, d, p) {
                        return Err(format!("after {} stores for other keys: retrieve(key) = {:?}, the map model holds depth {} payload {}", i, e, d, p));
                    }
                }
                (Some(e), None) => return Err(format!("after {} stores for other keys: retrieve(key) = {:?} although the table had dropped the key and nothing was stored for it since", i, e)),
            }
            // the entry is there: a shallower store for the same key must leave it alone
            tt.store(key, pl[2].eval, pl[2].mv, shallow, pl[2].bounds);
            match (tt.retrieve(key).into_entry(), held) {
                (None, _) => {
                    dropped += 1;
                    tt.store(key, pl[0].eval, pl[0].mv, deep, pl[0].bounds);
                    held = tt.retrieve(key).into_entry().map(|_| (deep, 0));
                }
                (Some(e), Some((d, p))) => {
                    if !same(&e, d, p) {
                        return Err(format!(
                            "a depth-{} entry for a key, then {} stores for other keys (the entry was still returned), then a depth-{} store for the first key: retrieve now gives depth {} eval {} -- a shallower result replaced the deeper one",
                            d, i, shallow, e.depth, e.eval
                        ));
                    }
                }
                (Some(e), None) => {
                    if same(&e, shallow, 2) {
                        held = Some((shallow, 2));
                    } else {
                        return Err(format!("after {} stores for other keys and a depth-{} store for the key: retrieve(key) = {:?}, which was never stored", i, shallow, e));
                    }
                }
            }
            // however full the table is by now, an equal and then a deeper result for a key it
            // holds must replace what it holds (or the key is dropped: nothing is always allowed);
            // tried whenever the number of other keys reaches a power of two, and at the end
            if (i.is_power_of_two() || i == n_max) && held.is_some() {
                let (d, _) = held.unwrap();
                for (nd, np) in [(d, 1usize), (d + 1, 0usize)] {
                    tt.store(key, pl[np].eval, pl[np].mv, nd, pl[np].bounds);
                    match tt.retrieve(key).into_entry() {
                        None => {
                            dropped += 1;
                            held = None;
                            break;
                        }
                        Some(e) => {
                            if !same(&e, nd, np) {
                                return Err(format!(
                                    "a table holding {} other keys and a depth-{} entry for one key: after a store of depth {} for that key (an equal or deeper result) retrieve still gives depth {} eval {}: the newer result was not accepted",
                                    i, d, nd, e.depth, e.eval
                                ));
                            }
                            held = Some((nd, np));
                        }
                    }
                }
                if held.is_none() {
                    tt.store(key, pl[0].eval, pl[0].mv, deep, pl[0].bounds);
                    held = tt.retrieve(key).into_entry().map(|_| (deep, 0));
                }
            }
        }
        Ok((n_max, dropped))
    });
    match r {
        Ok(x) => x,
        Err(e) => Err(e),
    }
}

pub fn replay_long(n_max: u64, seed: u64, variant: u8) -> i32 {
    match long_history(n_max, seed, variant) {
        Ok(_) => {
            println!("REPLAY-OK C15 long history {} steps", n_max);
            0
        }
        Err(e) => {
            println!("REPLAY-VIOLATION C15 long history :: {}", e);
            1
        }
    }
}

pub fn replay(seq: &str, seed: u64) -> i32 {
    let ks = keys(seed);
    let pl = payloads();
    let ops: Vec<Op> = seq
        .split(',')
        .map(|t| {
            if t.contains('.') {
                let f: Vec<&str> = t.split('.').collect();
                Op { key: f[0].parse().unwrap(), depth: f[1].parse().unwrap(), payload: f[2].parse().unwrap() }
            } else {
                let b = t.as_bytes();
                Op { key: (b[0] - b'0') as usize, depth: b[1] - b'0', payload: (b[2] - b'0') as usize }
            }
        })
        .collect();
    match run_sequence(&ops, &ks, &pl) {
        Ok(()) => {
            println!("REPLAY-OK C15 {}", seq);
            0
        }
        Err(e) => {
            println!("REPLAY-VIOLATION C15 {}", e);
            1
        }
    }
}
