//! C11: the position hash depends on the position and nothing else.

use crate::board::Board;
use crate::eng::{self, guard, EKey};
use crate::graph::{explore, Visitor};
use crate::json::J;
use crate::move_gen::MoveGenerator;
use crate::par::par_map;
use crate::props::posprops::{PosCheck, Which};
use crate::refchess::{Kind, Pos, Side, KINDS};
use crate::report::Report;
use crate::roots;
use crate::zobrist::ZobristTable;
use std::collections::HashMap;
use std::sync::atomic::{AtomicU64, Ordering};
use std::sync::Mutex;

thread_local! {
    /// Key tables are built per worker thread from the same seeds (a ZobristTable is not required
    /// to be shareable between threads). The last one is drawn unseeded (thread_rng), so it
    /// differs between threads: it takes part in every per-state check but not in `fold`.
    static TABLES: std::cell::RefCell<Option<(Vec<u64>, Vec<ZobristTable>)>> = const { std::cell::RefCell::new(None) };
}

fn with_tables<R>(seeds: &[u64], f: impl FnOnce(&[ZobristTable]) -> R) -> R {
    TABLES.with(|t| {
        let mut t = t.borrow_mut();
        let stale = match t.as_ref() {
            Some((s, _)) => s != seeds,
            None => true,
        };
        if stale {
            let mut v = Vec::new();
            for s in seeds {
                crate::zobrist::verif::set_seed(Some(*s));
                v.push(ZobristTable::new());
            }
            crate::zobrist::verif::set_seed(None);
            v.push(ZobristTable::new());
            *t = Some((seeds.to_vec(), v));
        }
        f(&t.as_ref().unwrap().1)
    })
}

struct HashCheck<'a> {
    nav: PosCheck<'a>,
    rep: &'a Report,
    key_seeds: &'a [u64],
    seeds: &'a [String],
    cube_states: AtomicU64,
    cube_hashes: AtomicU64,
    perturb_upto_depth: usize,
    perturbations: AtomicU64,
    counter_checks: AtomicU64,
    perturbed_states: AtomicU64,
    merge_mismatches: AtomicU64,
    samples: Mutex<Vec<J>>,
}

/// Fold over the seeded key sets (all but the last, per-thread unseeded one).
fn fold(hashes: &[u64]) -> u64 {
    let mut a = 0xcbf29ce484222325u64;
    for h in &hashes[..hashes.len() - 1] {
        a = (a ^ h).wrapping_mul(0x100000001b3).rotate_left(17);
    }
    a
}

impl<'a> HashCheck<'a> {
    fn hashes(&self, b: &Board) -> Result<Vec<u64>, String> {
        guard(|| with_tables(self.key_seeds, |ts| ts.iter().map(|t| t.hash(b)).collect()))
    }

    fn violate(&self, fen: &str, what: &str, text: String) {
        self.rep.violation(
            format!("C11 fen={} {}", fen, what),
            text,
            vec!["c11-one".into(), "--fen".into(), fen.to_string(), "--seed".into(), self.rep.seed.to_string()],
            J::Null,
        );
    }

    /// Every single-component perturbation of `p` must change the hash under every key set.
    fn perturb(&self, p: &Pos, base: &[u64]) {
        let fen = p.fen4();
        let mut variants: Vec<(String, Pos)> = Vec::new();
        for s in 0..64usize {
            let mut contents: Vec<Option<(Side, Kind)>> = vec![None];
            for side in [Side::W, Side::B] {
                for k in KINDS {
                    contents.push(Some((side, k)));
                }
            }
            for c in contents {
                if c != p.sq[s] {
                    let mut q = p.clone();
                    q.sq[s] = c;
                    variants.push((format!("square {} -> {:?}", crate::refchess::sq_name(s as u8), c), q));
                }
            }
        }
        {
            let mut q = p.clone();
            q.stm = p.stm.other();
            variants.push(("side to move flipped".into(), q));
        }
        for i in 0..4 {
            let mut q = p.clone();
            q.castle[i] = !q.castle[i];
            variants.push((format!("castling right {} toggled", ["K", "Q", "k", "q"][i]), q));
        }
        for t in (16..24u8).chain(40..48u8).map(Some).chain(std::iter::once(None)) {
            if t != p.ep {
                let mut q = p.clone();
                q.ep = t;
                variants.push((format!("en-passant target -> {:?}", t.map(crate::refchess::sq_name)), q));
            }
        }
        // two components at once, where one could stand in for the other: an en-passant target
        // together with the content of that square and of the squares in front of and behind it (a
        // target keyed like a man on the square), a castling right together with the content of its
        // king's and rook's home squares
        let mut all_contents: Vec<Option<(Side, Kind)>> = vec![None];
        for side in [Side::W, Side::B] {
            for k in KINDS {
                all_contents.push(Some((side, k)));
            }
        }
        for t in (16..24u8).chain(40..48u8).map(Some).chain(std::iter::once(None)) {
            if t == p.ep {
                continue;
            }
            let around: Vec<usize> = match t.or(p.ep) {
                Some(x) => vec![x as usize, x as usize + 8, x as usize - 8],
                None => vec![],
            };
            for s in around {
                for c in &all_contents {
                    if *c != p.sq[s] {
                        let mut q = p.clone();
                        q.ep = t;
                        q.sq[s] = *c;
                        variants.push((format!("en-passant target -> {:?} and square {} -> {:?}", t.map(crate::refchess::sq_name), crate::refchess::sq_name(s as u8), c), q));
                    }
                }
            }
        }
        for (i, homes) in [[4usize, 7], [4, 0], [60, 63], [60, 56]].iter().enumerate() {
            for s in homes {
                for c in &all_contents {
                    if *c != p.sq[*s] {
                        let mut q = p.clone();
                        q.castle[i] = !q.castle[i];
                        q.sq[*s] = *c;
                        variants.push((format!("castling right {} toggled and square {} -> {:?}", ["K", "Q", "k", "q"][i], crate::refchess::sq_name(*s as u8), c), q));
                    }
                }
            }
        }
        for (what, q) in variants {
            // perturbed positions need not be valid: the hash is a total function of the board
            let qb = match eng::board_of(&q) {
                Ok(b) => b,
                Err(_) => continue,
            };
            if eng::key_of(&qb) != eng::key_of_pos(&q) {
                continue;
            }
            self.perturbations.fetch_add(1, Ordering::Relaxed);
            match self.hashes(&qb) {
                Ok(h) => {
                    for (i, (a, b)) in base.iter().zip(h.iter()).enumerate() {
                        if a == b {
                            self.violate(&fen, "insensitive", format!("hash unchanged ({:#018x}, key set {}) between {:?} and the same position with {} ({:?})", a, self.seeds[i], fen, what, q.fen4()));
                            return;
                        }
                    }
                }
                Err(e) => self.violate(&fen, "panic", e),
            }
        }
    }

    /// Injectivity on the decoration cube: the same placement with every consistent combination
    /// of side to move, castling rights and en-passant target (all of them valid positions) must
    /// hash pairwise differently -- this also covers positions that differ in two components.
    fn cube(&self, p: &Pos) {
        let mut variants: Vec<Pos> = Vec::new();
        for stm in [Side::W, Side::B] {
            let mut base = p.clone();
            base.stm = stm;
            base.castle = [false; 4];
            base.ep = None;
            for q in roots::decorations(&base) {
                if q.is_valid() {
                    variants.push(q);
                }
            }
        }
        if variants.len() < 2 {
            return;
        }
        self.cube_states.fetch_add(1, Ordering::Relaxed);
        let mut seen: Vec<HashMap<u64, usize>> = self.seeds.iter().map(|_| HashMap::new()).collect();
        for (vi, q) in variants.iter().enumerate() {
            let qb = match eng::board_of(q) {
                Ok(b) if eng::key_of(&b) == eng::key_of_pos(q) => b,
                _ => continue,
            };
            self.cube_hashes.fetch_add(1, Ordering::Relaxed);
            match self.hashes(&qb) {
                Ok(h) => {
                    for (i, x) in h.iter().enumerate() {
                        if let Some(prev) = seen[i].insert(*x, vi) {
                            self.violate(
                                &q.fen4(),
                                "cube-collision",
                                format!("two different valid positions with the same placement share the hash {:#018x} under key set {}: {:?} and {:?}", x, self.seeds[i], variants[prev].fen4(), q.fen4()),
                            );
                            return;
                        }
                    }
                }
                Err(e) => {
                    self.violate(&q.fen4(), "panic", e);
                    return;
                }
            }
        }
    }

    fn check(&self, b: &Board, p: &Pos, depth: usize) -> u64 {
        let fen = p.fen4();
        let base = match self.hashes(b) {
            Ok(h) => h,
            Err(e) => {
                self.violate(&fen, "panic", e);
                return 0;
            }
        };
        // counter independence: the same position read from FENs with other move counters
        for (hm, fm) in [(0u32, 1u32), (1, 2), (99, 255), (100, 300), (150, 5949), (7, 77)] {
            if let Ok(cb) = eng::board_of_fen(&p.fen(hm, fm)) {
                self.counter_checks.fetch_add(1, Ordering::Relaxed);
                if self.hashes(&cb).as_ref() != Ok(&base) {
                    self.violate(&fen, "counters", format!("hash of {:?} differs between move counters as explored and ({}, {})", fen, hm, fm));
                    break;
                }
            }
        }
        if depth <= self.perturb_upto_depth {
            self.perturbed_states.fetch_add(1, Ordering::Relaxed);
            self.perturb(p, &base);
            self.cube(p);
        }
        let mut s = self.samples.lock().unwrap();
        if s.len() < 4 {
            s.push(J::obj().set("fen", fen).set("hash_key_set_0", format!("{:#018x}", base[0])));
        }
        fold(&base)
    }
}

impl<'a> Visitor for HashCheck<'a> {
    fn visit(&self, b: &Board, depth: usize) -> Vec<(Board, u64)> {
        if let Ok(p) = eng::pos_of(b) {
            if crate::crumb::enabled() {
                crate::crumb::set(&["c11-one", "--fen", &p.fen4(), "--seed", &self.rep.seed.to_string()]);
            }
            self.check(b, &p, depth);
        }
        // successors carry the fold of their own hashes; the explorer compares it with the value
        // stored when the state was first reached (by another path) -> path independence
        self.nav
            .check_state(b)
            .into_iter()
            .map(|(sb, _)| {
                let h = self.hashes(&sb).map(|h| fold(&h)).unwrap_or(0);
                (sb, h)
            })
            .collect()
    }
    fn merge_mismatch(&self, b: &Board, stored: u64, new: u64) {
        self.merge_mismatches.fetch_add(1, Ordering::Relaxed);
        let fen = eng::fen_of(b);
        self.rep.violation(
            format!("C11 fen={} path-dependent", fen),
            format!("{:?} reached by two different move orders (or from roots with different move counters) hashes differently: {:#018x} vs {:#018x} (fold over key sets)", fen, stored, new),
            vec![],
            J::Null,
        );
    }
    fn stop(&self) -> bool {
        self.rep.saturated()
    }
}

pub fn make_tables(seed: u64, k: usize) -> (Vec<u64>, Vec<String>) {
    let mut seeds = Vec::new();
    let mut names = Vec::new();
    for i in 0..k {
        let s = seed.wrapping_mul(1000).wrapping_add(i as u64 + 1);
        seeds.push(s);
        names.push(format!("seed {}", s));
    }
    names.push("unseeded (thread_rng, one draw per worker thread)".into());
    (seeds, names)
}

// ---------------------------------------------------------------------------------------------
// The hash as the searcher uses it. Everything above calls ZobristTable::hash on boards; the
// search may keep keys of its own (updated move by move, anchored to the root) and the hash
// function itself may remember things between calls. "Identical however the position was
// reached" is judged here on the keys under which a real search files its results: after a traced
// search every key in the table must be the hash of a position the search visited, and the hash of
// a position must be the same before a search, after it, and after a search of another root.

pub static SEARCH_KEYS_CHECKED: AtomicU64 = AtomicU64::new(0);
pub static SEARCH_HASH_PROBES: AtomicU64 = AtomicU64::new(0);

pub fn search_key_problems(b: &Board, depth: u8, cap: u64) -> Result<(u64, u64, Option<String>), String> {
    use crate::search::Searcher;
    use std::collections::{HashMap, HashSet};
    crate::timer::verif::set_node_clock(Some(1));
    guard(|| {
        let mg = crate::eng::tl_mg();
        let mut s = Searcher::new();
        // probe positions: the root, its successors, and theirs (the first few)
        let mut probes: Vec<Board> = vec![*b];
        for m in mg.generate_moves(b) {
            let c = b.clone_with_move(&m);
            probes.push(c);
            for m2 in mg.generate_moves(&c).iter().take(3) {
                probes.push(c.clone_with_move(m2));
            }
        }
        let before: Vec<u64> = probes.iter().map(|p| s.verif_hash(p)).collect();
        crate::search::verif::set_repetition_trace(true);
        s.find_best_move(b, depth, Some(std::time::Duration::from_millis(cap)));
        let visited = crate::search::verif::take_repetition_trace();
        crate::search::verif::set_repetition_trace(false);
        let after: Vec<u64> = probes.iter().map(|p| s.verif_hash(p)).collect();
        for (i, p) in probes.iter().enumerate() {
            if before[i] != after[i] {
                return (0, probes.len() as u64, Some(format!("the hash of {:?} was {:#018x} before the search of {:?} and is {:#018x} after it (same searcher, same keys): the hash depends on what was hashed or searched before", eng::fen_of(p), before[i], eng::fen_of(b), after[i])));
            }
        }
        let mut hashes: HashMap<u64, eng::EKey> = HashMap::new();
        for (vb, _, _) in &visited {
            hashes.insert(s.verif_hash(vb), eng::key_of(vb));
        }
        let entries = s.verif_tt_entries();
        for e in &entries {
            if !hashes.contains_key(&e.hash_key) {
                return (entries.len() as u64, probes.len() as u64, Some(format!("after the search of {:?} to depth {} the table holds an entry under the key {:#018x} (depth {}, move {:?}), which is the hash of none of the {} positions the search visited: a position reached inside the search was filed under another key than its hash", eng::fen_of(b), depth, e.hash_key, e.depth, e.best_move.map(|m| m.to_algebraic()), visited.len())));
            }
        }
        // a second search, from the first successor: the hashes of the probes must still be the same
        if probes.len() > 1 {
            s.find_best_move(&probes[1], 2, Some(std::time::Duration::from_millis(cap)));
            for (i, p) in probes.iter().enumerate() {
                let h = s.verif_hash(p);
                if h != before[i] {
                    return (entries.len() as u64, probes.len() as u64, Some(format!("the hash of {:?} was {:#018x} at first and is {:#018x} after searches of {:?} and {:?}: the hash depends on the root of the last search", eng::fen_of(p), before[i], h, eng::fen_of(b), eng::fen_of(&probes[1]))));
                }
            }
        }
        (entries.len() as u64, probes.len() as u64, None)
    })
}

pub fn replay_search_one(fen: &str, depth: u8, cap: u64) -> i32 {
    let b = match eng::board_of_fen(fen) {
        Ok(b) => b,
        Err(e) => {
            println!("REPLAY-ERROR bad fen {:?}: {}", fen, e);
            return 2;
        }
    };
    match search_key_problems(&b, depth, cap) {
        Err(e) => {
            println!("REPLAY-VIOLATION C11 search-keys fen={} panic :: {}", fen, e);
            1
        }
        Ok((_, _, Some(_))) => {
            // (the text names keys, which differ from run to run when the key set is not seeded)
            println!("REPLAY-VIOLATION C11 search-keys fen={} :: a key used by the search is not the hash of the position", fen);
            1
        }
        Ok(_) => {
            println!("REPLAY-OK C11 search keys of {}", fen);
            0
        }
    }
}

pub fn run(tier: &str, seed: u64, out: &str) {
    let rep = Report::new("C11", tier, seed);
    let thorough = tier == "thorough";
    if let Err(e) = crate::refchess::self_test(3) {
        eprintln!("MACHINERY ERROR: {}", e);
        std::process::exit(2);
    }
    let (tables, names) = make_tables(seed, if thorough { 8 } else { 3 });
    let mg = MoveGenerator::new();
    let hc = HashCheck {
        nav: PosCheck::new(crate::eng::tl_mg(), &rep, Which::Nav),
        rep: &rep,
        key_seeds: &tables,
        seeds: &names,
        cube_states: AtomicU64::new(0),
        cube_hashes: AtomicU64::new(0),
        perturb_upto_depth: if thorough { 2 } else { 1 },
        perturbations: AtomicU64::new(0),
        counter_checks: AtomicU64::new(0),
        perturbed_states: AtomicU64::new(0),
        merge_mismatches: AtomicU64::new(0),
        samples: Mutex::new(Vec::new()),
    };
    let roots = roots::all_roots().unwrap_or_else(|e| {
        eprintln!("MACHINERY ERROR: {}", e);
        std::process::exit(2)
    });
    // roots are read from FENs with *different* move counters, so a merge between the
    // neighbourhoods of two roots also compares boards whose counters differ
    let mut root_boards: Vec<(Board, u64)> = Vec::new();
    for (i, r) in roots.iter().enumerate() {
        if let Ok(b) = eng::board_of_fen(&r.pos.fen((i as u32 * 7) % 100, 1 + (i as u32 * 37) % 400)) {
            if eng::key_of(&b) == eng::key_of_pos(&r.pos) {
                let h = hc.hashes(&b).map(|h| fold(&h)).unwrap_or(0);
                root_boards.push((b, h));
            }
        }
    }
    // the start position twice more via two-move transpositions is covered by the graph itself
    let depth = if thorough { 4 } else { 3 };
    let gs = explore(&root_boards, depth, if thorough { 40_000_000 } else { 6_000_000 }, &hc);
    if gs.capped {
        rep.cap(format!("exploration stopped after {} states", gs.states));
    }
    eprintln!("[C11] graph: {} states, {} merges ({:.1}s)", gs.states, gs.merges, rep.elapsed());

    // injectivity on a complete class + the roots' depth-2 neighbourhood: distinct keys -> distinct hashes
    let mut inj_states = 0u64;
    let mut collisions = 0u64;
    {
        // seeded key sets only: the unseeded table differs per worker thread
        let mut seen: Vec<HashMap<u64, EKey>> = tables.iter().map(|_| HashMap::new()).collect();
        let class = roots::classes(tier).into_iter().find(|c| c.name == "F1").unwrap();
        let units: Vec<u32> = if thorough { class.units.clone() } else { class.units.iter().cloned().take(128).collect() };
        let chunks: Vec<Vec<(EKey, Vec<u64>, String)>> = par_map(&units, |u| {
            let mut v = Vec::new();
            (class.gen)(*u, &mut |p: Pos| {
                if let Ok(b) = eng::board_of(&p) {
                    if let Ok(h) = hc.hashes(&b) {
                        v.push((eng::key_of(&b), h, p.fen4()));
                    }
                }
            });
            v
        });
        for chunk in chunks {
            for (k, hs, fen) in chunk {
                inj_states += 1;
                for (i, h) in hs.iter().enumerate().take(tables.len()) {
                    if let Some(prev) = seen[i].insert(*h, k) {
                        if prev != k {
                            collisions += 1;
                            rep.violation(
                                format!("C11 collision fen={}", fen),
                                format!("two different positions share the hash {:#018x} under key set {}: {:?} and {}", h, names[i], fen, eng::describe_key(&prev)),
                                vec![],
                                J::Null,
                            );
                        }
                    }
                }
            }
        }
    }
    // ---- the hash as the searcher uses it
    if !rep.saturated() {
        let mut starts: Vec<Board> = Vec::new();
        let mut seen_start = std::collections::HashSet::new();
        for r in &roots {
            if let Ok(b) = eng::board_of(&r.pos) {
                if seen_start.insert(eng::key_of(&b)) {
                    starts.push(b);
                }
                if thorough {
                    for m in crate::eng::tl_mg().generate_moves(&b) {
                        let c = b.clone_with_move(&m);
                        if seen_start.insert(eng::key_of(&c)) {
                            starts.push(c);
                        }
                    }
                }
            }
        }
        let depth: u8 = 3;
        let cap: u64 = if thorough { 200_000 } else { 60_000 };
        crate::par::par_map(&starts, |b| {
            if rep.saturated() {
                return;
            }
            let fen = eng::fen_of(b);
            let args = vec!["c11-search-one".to_string(), "--fen".into(), fen.clone(), "--depth".into(), depth.to_string(), "--cap".into(), cap.to_string()];
            match search_key_problems(b, depth, cap) {
                Err(e) => rep.violation(format!("C11 search-keys fen={} panic", fen), format!("search of {:?}: {}", fen, e), args, J::Null),
                Ok((n, pr, problem)) => {
                    SEARCH_KEYS_CHECKED.fetch_add(n, Ordering::Relaxed);
                    SEARCH_HASH_PROBES.fetch_add(pr, Ordering::Relaxed);
                    if let Some(t) = problem {
                        rep.violation(format!("C11 search-keys fen={}", fen), t, args, J::Null);
                    }
                }
            }
        });
        eprintln!("[C11] the hash as the searcher uses it: {} searches, {} table keys checked, {} hash probes before/after ({:.1}s)", starts.len(), SEARCH_KEYS_CHECKED.load(Ordering::Relaxed), SEARCH_HASH_PROBES.load(Ordering::Relaxed), rep.elapsed());
    }
    let cov = J::obj()
        .set("hash_as_the_searcher_uses_it", J::obj().set("table_keys_checked", SEARCH_KEYS_CHECKED.load(Ordering::Relaxed)).set("hash_probes_before_and_after_searches", SEARCH_HASH_PROBES.load(Ordering::Relaxed)).set("rule", "a real search (depth 3, node-capped, fresh searcher) of every root with the node trace on: every key in the table afterwards must be the hash (the searcher's own, same key set) of a position the search visited; the hash of the root, of every successor and of some of theirs must be the same before the search, after it, and after a second search from another root"))
        .set("states", gs.states)
        .set("transitions", gs.transitions)
        .set("traces_validated_against_impl", gs.transitions)
        .set("merges_checked_for_path_independence", gs.merges)
        .set("merge_mismatches", hc.merge_mismatches.load(Ordering::Relaxed))
        .set("key_sets", names.clone())
        .set("depth", depth)
        .set("layer_sizes", gs.layer_sizes.clone())
        .set("counter_independence_checks", hc.counter_checks.load(Ordering::Relaxed))
        .set("states_perturbed", hc.perturbed_states.load(Ordering::Relaxed))
        .set("single_component_perturbations", hc.perturbations.load(Ordering::Relaxed))
        .set("decoration_cubes", hc.cube_states.load(Ordering::Relaxed))
        .set("decoration_cube_hashes_pairwise_distinct", hc.cube_hashes.load(Ordering::Relaxed))
        .set("injectivity_states", inj_states)
        .set("injectivity_collisions", collisions)
        .set("evaluations", gs.states + hc.perturbations.load(Ordering::Relaxed) + inj_states)
        .set("distinct_nontrivial", gs.states)
        .set("samples", J::Arr(hc.samples.lock().unwrap().clone()))
        .set("exhaustive", false);
    rep.finish(
        "model_checking",
        cov,
        vec![
            "key sets are instantiated (seeded + one unseeded), not enumerated: the 2^64-per-key space cannot be; a 64-bit collision among ~10^7 hashes has probability < 10^-5 per run and seeds are fixed, so a run is reproducible".into(),
            "trusts the rules model for which successor boards are the same position".into(),
        ],
        out,
    );
}

pub fn replay_one(fen: &str, seed: u64) -> i32 {
    let rep = Report::new("C11", "quick", seed);
    let (tables, names) = make_tables(seed, 3);
    let mg = MoveGenerator::new();
    let hc = HashCheck {
        nav: PosCheck::new(crate::eng::tl_mg(), &rep, Which::Nav),
        rep: &rep,
        key_seeds: &tables,
        seeds: &names,
        cube_states: AtomicU64::new(0),
        cube_hashes: AtomicU64::new(0),
        perturb_upto_depth: 99,
        perturbations: AtomicU64::new(0),
        counter_checks: AtomicU64::new(0),
        perturbed_states: AtomicU64::new(0),
        merge_mismatches: AtomicU64::new(0),
        samples: Mutex::new(Vec::new()),
    };
    let p = Pos::from_fen(fen).unwrap();
    if let Ok(b) = eng::board_of(&p) {
        hc.check(&b, &p, 0);
    }
    let v = rep.violations.lock().unwrap();
    for x in v.iter() {
        println!("REPLAY-VIOLATION {} :: {}", x.sig, x.text);
    }
    if v.is_empty() {
        println!("REPLAY-OK C11 {}", fen);
        0
    } else {
        1
    }
}
