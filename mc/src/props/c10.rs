//! C10: attack and line tables are exact for every square and every occupancy.
//! Complete enumeration: every subset of each square's rays (edges included) x three off-ray
//! fillings; all leaper squares; all 64x63 ordered pairs for the two line tables.

use crate::eng::guard;
use crate::json::J;
use crate::lookup::LookupTable;
use crate::par::par_map;
use crate::pieces::Piece;
use crate::refchess::{sq_at, sq_name};
use crate::report::Report;

const ROOK_DIRS: [(i32, i32); 4] = [(1, 0), (0, 1), (-1, 0), (0, -1)];
const BISHOP_DIRS: [(i32, i32); 4] = [(1, 1), (-1, 1), (-1, -1), (1, -1)];

fn ray_squares(sq: u8, dirs: &[(i32, i32)]) -> Vec<u8> {
    let mut v = Vec::new();
    for (df, dr) in dirs {
        let (mut f, mut r) = ((sq % 8) as i32 + df, (sq / 8) as i32 + dr);
        while let Some(s) = sq_at(f, r) {
            v.push(s);
            f += df;
            r += dr;
        }
    }
    v
}

/// Oracle: walk each ray up to and including the first blocker.
fn walk(sq: u8, occ: u64, dirs: &[(i32, i32)]) -> u64 {
    let mut a = 0u64;
    for (df, dr) in dirs {
        let (mut f, mut r) = ((sq % 8) as i32 + df, (sq / 8) as i32 + dr);
        while let Some(s) = sq_at(f, r) {
            a |= 1u64 << s;
            if occ & (1u64 << s) != 0 {
                break;
            }
            f += df;
            r += dr;
        }
    }
    a
}

fn spread(index: u64, squares: &[u8]) -> u64 {
    let mut occ = 0u64;
    for (i, s) in squares.iter().enumerate() {
        if index & (1 << i) != 0 {
            occ |= 1u64 << s;
        }
    }
    occ
}

fn piece_name(p: Piece) -> &'static str {
    match p {
        Piece::Rook => "R",
        Piece::Bishop => "B",
        Piece::Queen => "Q",
        Piece::Knight => "N",
        Piece::King => "K",
        Piece::Pawn => "P",
    }
}

fn slider(lk: &LookupTable, piece: Piece, sq: u8, occ: u64) -> Result<u64, String> {
    guard(|| lk.sliding_moves(sq, occ, piece))
}

fn expect_slider(piece: Piece, sq: u8, occ: u64) -> u64 {
    match piece {
        Piece::Rook => walk(sq, occ, &ROOK_DIRS),
        Piece::Bishop => walk(sq, occ, &BISHOP_DIRS),
        _ => walk(sq, occ, &ROOK_DIRS) | walk(sq, occ, &BISHOP_DIRS),
    }
}

fn check_slider(lk: &LookupTable, rep: &Report, piece: Piece, sq: u8, occ: u64) -> bool {
    if rep.saturated() {
        return false;
    }
    let want = expect_slider(piece, sq, occ);
    let r = slider(lk, piece, sq, occ);
    let before: Vec<(Piece, u8, u64)> = TL_HIST.with(|h| h.borrow().iter().cloned().collect());
    TL_HIST.with(|h| {
        let mut h = h.borrow_mut();
        h.push_back((piece, sq, occ));
        if h.len() > HIST {
            h.pop_front();
        }
    });
    let mut one = vec!["c10-one".to_string(), "--piece".into(), piece_name(piece).into(), "--sq".into(), sq.to_string(), "--occ".into(), occ.to_string()];
    cpus_args(&mut one);
    match r {
        Ok(got) if got == want => true,
        Ok(got) => {
            // does a table that was asked nothing before answer correctly? then the answer depends
            // on the earlier lookups, and the replay must repeat them
            let fresh = guard(|| build_table().sliding_moves(sq, occ, piece));
            if fresh == Ok(want) && !before.is_empty() {
                let mut seq: Vec<String> = before.iter().map(|(p, s, o)| format!("{}:{}:{}", piece_name(*p), s, o)).collect();
                seq.push(format!("{}:{}:{}", piece_name(piece), sq, occ));
                let mut args = vec!["c10-hist".to_string(), "--seq".into(), seq.join(",")];
                cpus_args(&mut args);
                rep.violation(
                    format!("C10 slider piece={} sq={} depends-on-earlier-lookups", piece_name(piece), sq_name(sq)),
                    format!(
                        "{} on {} with occupancy {:#018x}: table gives {:#018x}, ray walk gives {:#018x} -- but a table that was asked nothing before answers correctly: the answer depends on the lookups made before (the last {} are in the replay){}",
                        piece_name(piece), sq_name(sq), occ, got, want, before.len(), cpus_text()
                    ),
                    args,
                    J::Null,
                );
                return false;
            }
            rep.violation(
                format!("C10 slider piece={} sq={}", piece_name(piece), sq_name(sq)),
                format!(
                    "{} on {} with occupancy {:#018x}: table gives {:#018x}, ray walk gives {:#018x}{}",
                    piece_name(piece), sq_name(sq), occ, got, want, cpus_text()
                ),
                one,
                J::Null,
            );
            false
        }
        Err(e) => {
            rep.violation(
                format!("C10 slider piece={} sq={} panic", piece_name(piece), sq_name(sq)),
                format!("{} on {} occupancy {:#018x}: {}{}", piece_name(piece), sq_name(sq), occ, e, cpus_text()),
                one,
                J::Null,
            );
            false
        }
    }
}

fn aligned(a: u8, b: u8) -> Option<(i32, i32)> {
    let (af, ar, bf, br) = ((a % 8) as i32, (a / 8) as i32, (b % 8) as i32, (b / 8) as i32);
    let (df, dr) = (bf - af, br - ar);
    if a == b {
        return None;
    }
    if df == 0 || dr == 0 || df.abs() == dr.abs() {
        Some((df.signum(), dr.signum()))
    } else {
        None
    }
}

/// Segment from a to b, both ends included (the convention documented in lookup.rs:
/// "when (from = a2, to = a4) the ray would equal a2 a3 a4"); empty when not aligned.
fn segment(a: u8, b: u8) -> u64 {
    match aligned(a, b) {
        None => 0,
        Some((df, dr)) => {
            let mut m = 1u64 << a;
            let (mut f, mut r) = ((a % 8) as i32, (a / 8) as i32);
            loop {
                f += df;
                r += dr;
                let s = sq_at(f, r).unwrap();
                m |= 1u64 << s;
                if s == b {
                    break;
                }
            }
            m
        }
    }
}

/// Whole line through a and b, edge to edge; empty when not aligned.
fn line(a: u8, b: u8) -> u64 {
    match aligned(a, b) {
        None => 0,
        Some((df, dr)) => {
            let mut m = 1u64 << a;
            for sign in [1, -1] {
                let (mut f, mut r) = ((a % 8) as i32 + sign * df, (a / 8) as i32 + sign * dr);
                while let Some(s) = sq_at(f, r) {
                    m |= 1u64 << s;
                    f += sign * df;
                    r += sign * dr;
                }
            }
            m
        }
    }
}

fn leaper(sq: u8, steps: &[(i32, i32)]) -> u64 {
    let mut m = 0;
    for (df, dr) in steps {
        if let Some(s) = sq_at((sq % 8) as i32 + df, (sq / 8) as i32 + dr) {
            m |= 1u64 << s;
        }
    }
    m
}

const KNIGHT: [(i32, i32); 8] = [(1, 2), (2, 1), (2, -1), (1, -2), (-1, -2), (-2, -1), (-2, 1), (-1, 2)];
const KING: [(i32, i32); 8] = [(1, 0), (1, 1), (0, 1), (-1, 1), (-1, 0), (-1, -1), (0, -1), (1, -1)];

/// Number of CPUs the table initialiser is allowed to see (0 = all). The tables are built by
/// `LookupTable::init()` on a thread whose CPU affinity is narrowed to that many CPUs first, so
/// that `std::thread::available_parallelism()` (which reads the calling thread's affinity) answers
/// with it: an initialiser that splits its work by CPU count must produce the same tables for any.
static CPUS: std::sync::atomic::AtomicUsize = std::sync::atomic::AtomicUsize::new(0);

extern "C" {
    fn sched_setaffinity(pid: i32, size: usize, mask: *const u64) -> i32;
    fn sched_getaffinity(pid: i32, size: usize, mask: *mut u64) -> i32;
}

/// CPUs this process may run on (from the affinity mask of the calling thread).
fn allowed_cpus() -> Vec<usize> {
    let mut mask = [0u64; 16];
    let r = unsafe { sched_getaffinity(0, 128, mask.as_mut_ptr()) };
    if r != 0 {
        return vec![];
    }
    (0..1024).filter(|i| mask[i / 64] >> (i % 64) & 1 == 1).collect()
}

fn build_table() -> LookupTable {
    let n = CPUS.load(std::sync::atomic::Ordering::Relaxed);
    if n == 0 {
        return LookupTable::init();
    }
    let all = allowed_cpus();
    if all.len() < n {
        return LookupTable::init();
    }
    let mut old = [0u64; 16];
    unsafe { sched_getaffinity(0, 128, old.as_mut_ptr()) };
    let mut mask = [0u64; 16];
    for c in &all[..n] {
        mask[c / 64] |= 1u64 << (c % 64);
    }
    unsafe { sched_setaffinity(0, 128, mask.as_ptr()) };
    let t = std::panic::catch_unwind(LookupTable::init);
    unsafe { sched_setaffinity(0, 128, old.as_ptr()) };
    match t {
        Ok(t) => t,
        Err(e) => std::panic::resume_unwind(e),
    }
}

thread_local! {
    /// every worker thread builds its own tables with the real initialiser (a table type that is
    /// not shareable between threads must not stop this check from building)
    static TL_LK: &'static LookupTable = Box::leak(Box::new(build_table()));
    /// the last slider lookups this thread's table answered (oldest first)
    static TL_HIST: std::cell::RefCell<std::collections::VecDeque<(Piece, u8, u64)>> = std::cell::RefCell::new(std::collections::VecDeque::new());
}

const HIST: usize = 6;

fn cpus_args(v: &mut Vec<String>) {
    let n = CPUS.load(std::sync::atomic::Ordering::Relaxed);
    if n > 0 {
        v.push("--cpus".into());
        v.push(n.to_string());
    }
}

fn cpus_text() -> String {
    let n = CPUS.load(std::sync::atomic::Ordering::Relaxed);
    if n > 0 {
        format!(" (tables built by a thread that may use {} CPU{})", n, if n == 1 { "" } else { "s" })
    } else {
        String::new()
    }
}

fn tl_lk() -> &'static LookupTable {
    TL_LK.with(|l| *l)
}

pub fn run(tier: &str, seed: u64, out: &str) {
    let rep = Report::new("C10", tier, seed);
    // the whole enumeration once with the tables as this machine builds them, then once for each
    // smaller number of CPUs the initialiser might see (1, 2, 3, 5, 6, 7: powers of two and counts
    // that do not divide 64)
    let avail = allowed_cpus().len();
    let mut variants: Vec<usize> = vec![0];
    for n in [1usize, 2, 3, 5, 6, 7, 12] {
        if n < avail {
            variants.push(n);
        }
    }
    let mut tot = (0u64, 0u64, 0u64);
    for n in &variants {
        CPUS.store(*n, std::sync::atomic::Ordering::Relaxed);
        if let Some((e, d, a)) = sweep(&rep) {
            tot = (tot.0 + e, tot.1 + d, a);
        }
        if rep.saturated() {
            break;
        }
    }
    CPUS.store(0, std::sync::atomic::Ordering::Relaxed);
    let (evals, distinct, aligned_pairs) = tot;
    let cov = J::obj()
        .set("evaluations", evals)
        .set("distinct_nontrivial", distinct)
        .set("cpu_counts_seen_by_the_table_initialiser", variants.iter().map(|n| if *n == 0 { format!("all ({})", avail) } else { n.to_string() }).collect::<Vec<_>>())
        .set("rule", "sliders: for each of 64 squares, every subset of the rook rays and of the bishop rays (edge squares included), each combined with 4 fillings of all other squares (empty, full, checkerboard, own square set), looked up as rook/bishop and as queen; leapers: 64 squares x {knight, king}; lines: all 64x63 ordered pairs, segment (inclusive=true) and whole line (inclusive=false). A case is distinct by (piece, square, on-ray subset) / (square) / (from, to, table). The whole enumeration is repeated with the tables built under each listed CPU count (thread affinity narrowed while LookupTable::init() runs).")
        .set("aligned_pairs", aligned_pairs)
        .set("exhaustive", true)
        .set("samples", J::Arr(vec![
            J::obj().set("piece", "R").set("square", "d4").set("occupancy", "0x0000000008000800").set("expected", format!("{:#018x}", expect_slider(Piece::Rook, 27, 0x0000000008000800))),
            J::obj().set("segment", "a2..a4").set("expected", format!("{:#018x}", segment(8, 24))),
            J::obj().set("line", "b2,d4").set("expected", format!("{:#018x}", line(9, 27))),
        ]));
    rep.finish(
        "exploration",
        cov,
        vec![
            "occupancy bits off a piece's rays do not influence the lookup beyond the four fillings tried (the code masks the occupancy with the ray mask before indexing)".into(),
            "the segment table includes both end squares and the line table runs edge to edge, as documented in lookup.rs and relied on by move_gen.rs; from == to is outside the claim".into(),
        ],
        out,
    );
}

/// One complete enumeration with the tables built under the current CPUS setting.
/// Returns (evaluations, distinct cases, aligned pairs), None if the tables could not be built.
fn sweep(rep: &Report) -> Option<(u64, u64, u64)> {
    let rep = rep;
    let lk = match guard(build_table) {
        Ok(l) => l,
        Err(e) => {
            rep.violation(format!("C10 init cpus={}", CPUS.load(std::sync::atomic::Ordering::Relaxed)), format!("LookupTable::init: {}{}", e, cpus_text()), vec![], J::Null);
            return None;
        }
    };
    let checker: u64 = 0xAA55AA55AA55AA55;
    let squares: Vec<u8> = (0..64).collect();
    // sliders: per square, rook rays, bishop rays; the queen is checked on both families with
    // the other family's squares filled by the three patterns as well.
    let per_sq: Vec<(u64, u64)> = par_map(&squares, |&sq| {
        let mut evals = 0u64;
        let mut distinct = 0u64;
        let rook_rays = ray_squares(sq, &ROOK_DIRS);
        let bishop_rays = ray_squares(sq, &BISHOP_DIRS);
        for (piece, rays) in [(Piece::Rook, &rook_rays), (Piece::Bishop, &bishop_rays)] {
            let ray_mask: u64 = rays.iter().fold(0, |m, s| m | 1u64 << s);
            let off = !ray_mask & !(1u64 << sq);
            for idx in 0..(1u64 << rays.len()) {
                if rep.saturated() {
                    return (evals, distinct);
                }
                let on = spread(idx, rays);
                distinct += 1;
                for fill in [0u64, off, off & checker, 1u64 << sq] {
                    check_slider(tl_lk(), &rep, piece, sq, on | fill);
                    check_slider(tl_lk(), &rep, Piece::Queen, sq, on | fill);
                    evals += 2;
                }
            }
        }
        (evals, distinct)
    });
    let mut evals: u64 = per_sq.iter().map(|x| x.0).sum();
    let mut distinct: u64 = per_sq.iter().map(|x| x.1).sum();

    // leapers
    for sq in 0..64u8 {
        for (piece, steps) in [(Piece::Knight, &KNIGHT), (Piece::King, &KING)] {
            let want = leaper(sq, steps);
            let got = guard(|| lk.non_sliding_moves(sq, piece));
            evals += 1;
            distinct += 1;
            if got != Ok(want) {
                rep.violation(
                    format!("C10 leaper piece={} sq={}", piece_name(piece), sq_name(sq)),
                    format!("{} on {}: table {:?}, geometry {:#018x}{}", piece_name(piece), sq_name(sq), got, want, cpus_text()),
                    {
                        let mut a = vec!["c10-one".to_string(), "--piece".into(), piece_name(piece).into(), "--sq".into(), sq.to_string(), "--occ".into(), "0".into()];
                        cpus_args(&mut a);
                        a
                    },
                    J::Null,
                );
            }
        }
    }
    // line tables, all ordered pairs of distinct squares
    let mut aligned_pairs = 0u64;
    for a in 0..64u8 {
        for b in 0..64u8 {
            if a == b {
                continue;
            }
            if aligned(a, b).is_some() {
                aligned_pairs += 1;
            }
            for (inclusive, want, name) in [(true, segment(a, b), "segment"), (false, line(a, b), "line")] {
                let got = guard(|| lk.between(a, b, inclusive));
                evals += 1;
                distinct += 1;
                if got != Ok(want) {
                    rep.violation(
                        format!("C10 {} from={} to={}", name, sq_name(a), sq_name(b)),
                        format!("between({}, {}, inclusive={}) = {:?}, geometry gives {:#018x}{}", sq_name(a), sq_name(b), inclusive, got, want, cpus_text()),
                        {
                            let mut v = vec!["c10-between".to_string(), "--from".into(), a.to_string(), "--to".into(), b.to_string()];
                            cpus_args(&mut v);
                            v
                        },
                        J::Null,
                    );
                }
            }
        }
    }
    Some((evals, distinct, aligned_pairs))
}

fn piece_of(piece: &str) -> Piece {
    match piece {
        "R" => Piece::Rook,
        "B" => Piece::Bishop,
        "Q" => Piece::Queen,
        "N" => Piece::Knight,
        _ => Piece::King,
    }
}

/// Replay of a lookup whose answer depends on earlier lookups: a fresh table, the recorded
/// lookups in order, the last one judged.
pub fn replay_hist(seq: &str, cpus: usize) -> i32 {
    CPUS.store(cpus, std::sync::atomic::Ordering::Relaxed);
    let lk = build_table();
    let items: Vec<(Piece, u8, u64)> = seq
        .split(',')
        .map(|t| {
            let f: Vec<&str> = t.split(':').collect();
            (piece_of(f[0]), f[1].parse().unwrap(), f[2].parse().unwrap())
        })
        .collect();
    let mut last = None;
    for (p, s, o) in &items {
        last = Some((lk.sliding_moves(*s, *o, *p), expect_slider(*p, *s, *o)));
    }
    match last {
        Some((got, want)) if got != want => {
            println!("REPLAY-VIOLATION C10 after the lookups [{}] the last one gives {:#018x}, the ray walk {:#018x}", seq, got, want);
            1
        }
        _ => {
            println!("REPLAY-OK C10 lookups [{}]", seq);
            0
        }
    }
}

pub fn replay_slider(piece: &str, sq: u8, occ: u64, cpus: usize) -> i32 {
    let rep = Report::new("C10", "quick", 0);
    CPUS.store(cpus, std::sync::atomic::Ordering::Relaxed);
    let lk = build_table();
    let p = match piece {
        "R" => Piece::Rook,
        "B" => Piece::Bishop,
        "Q" => Piece::Queen,
        "N" => Piece::Knight,
        _ => Piece::King,
    };
    let ok = match p {
        Piece::Knight => lk.non_sliding_moves(sq, p) == leaper(sq, &KNIGHT),
        Piece::King => lk.non_sliding_moves(sq, p) == leaper(sq, &KING),
        _ => check_slider(&lk, &rep, p, sq, occ),
    };
    if ok {
        println!("REPLAY-OK C10 {} {} {:#x}", piece, sq, occ);
        0
    } else {
        println!("REPLAY-VIOLATION C10 {} on {} occ {:#x}", piece, sq_name(sq), occ);
        1
    }
}

pub fn replay_between(a: u8, b: u8, cpus: usize) -> i32 {
    CPUS.store(cpus, std::sync::atomic::Ordering::Relaxed);
    let lk = build_table();
    if lk.between(a, b, true) == segment(a, b) && lk.between(a, b, false) == line(a, b) {
        println!("REPLAY-OK C10 between {} {}", a, b);
        0
    } else {
        println!("REPLAY-VIOLATION C10 between {} {}: segment {:#x} line {:#x}", sq_name(a), sq_name(b), lk.between(a, b, true), lk.between(a, b, false));
        1
    }
}
