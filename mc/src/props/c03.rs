//! C03: every go is answered by exactly one legal bestmove.
//!
//! Black-box on the real (hooks-on) binary under the node clock (1 node = 1 virtual ms, so a
//! budget is a node count and every run is deterministic). Enumerated:
//!  (a) every history `(ucinewgame? position_i go_j){1..L}` over 9 positions x 10 go parameter
//!      sets (the pair "quiescence-explosion position x depth-only go" is outside the property:
//!      that search does not end in practical time);
//!  (b) budget sweep: `go movetime N` for every N in 0..=T on a fresh process, after a completed
//!      search and after an interrupted search of the same position.
//! After each go an `isready` is sent; `readyok` delimits the answer to that go.

use crate::blackbox::{self, Opts, RunResult};
use crate::json::J;
use crate::par::par_map;
use crate::refchess::{Mv, Pos};
use crate::report::Report;
use std::sync::atomic::{AtomicU64, Ordering};
use std::time::Duration;

pub const POSITIONS: &[(&str, &str)] = &[
    ("start position", "position startpos"),
    ("after 1.e4 e5", "position startpos moves e2e4 e7e5"),
    ("kiwipete", "position fen r3k2r/p1ppqpb1/bn2pnp1/3PN3/1p2P3/2N2Q1p/PPPBBPPP/R3K2R w KQkq - 0 1"),
    ("K+P v k", "position fen 8/8/8/4k3/8/4K3/4P3/8 w - - 0 1"),
    ("single legal move", "position fen 7k/8/8/8/8/8/6PP/r5K1 w - - 0 1"),
    ("checkmated (FEN)", "position fen 7k/8/8/8/8/8/5PPP/r5K1 w - - 0 1"),
    ("checkmated (fool's mate by moves)", "position startpos moves f2f3 e7e5 g2g4 d8h4"),
    ("stalemated", "position fen 7k/5Q2/6K1/8/8/8/8/8 b - - 0 1"),
    ("quiescence explosion", "position fen 6k1/PPPPP3/8/8/8/8/ppppp3/6K1 w - - 0 1"),
];
const EXPLOSION: usize = 8;

/// (go line, has a time budget)
pub const GOS: &[(&str, bool)] = &[
    ("go depth 1", false),
    ("go depth 2", false),
    ("go movetime 0", true),
    ("go movetime 1", true),
    ("go movetime 37", true),
    ("go movetime 500", true),
    ("go wtime 4000 btime 4000", true),
    ("go wtime 0 btime 0 winc 0 binc 0", true),
    ("go wtime 60000 btime 60000 winc 1000 binc 1000", true),
    ("go depth 2 movetime 5", true),
];

/// Groups of positions with the same placement that differ in exactly one other component.
pub const TWINS: &[&[&str]] = &[
    &["7k/8/8/Pp6/8/8/8/7K w - b6 0 1", "7k/8/8/Pp6/8/8/8/7K w - - 0 1"],
    &["7k/8/8/8/6pP/8/8/7K b - h3 0 1", "7k/8/8/8/6pP/8/8/7K b - - 0 1"],
    &["4k3/8/8/3pP3/8/8/8/4K3 w - d6 0 1", "4k3/8/8/3pP3/8/8/8/4K3 w - - 0 1"],
    &["r3k2r/8/8/8/8/8/8/R3K2R w KQkq - 0 1", "r3k2r/8/8/8/8/8/8/R3K2R w - - 0 1", "r3k2r/8/8/8/8/8/8/R3K2R w Kq - 0 1"],
    &["8/8/8/4k3/8/4K3/4P3/8 w - - 0 1", "8/8/8/4k3/8/4K3/4P3/8 b - - 0 1"],
];

/// Bare-material positions (colour mirrors are added).
pub const BARE: &[&str] = &[
    "8/8/4k3/8/8/4K3/8/8 w - - 0 1",
    "8/8/4k3/8/8/4K3/8/8 b - - 0 1",
    "8/8/4k3/8/8/4K3/8/5N2 w - - 0 1",
    "8/8/4k3/8/8/4K3/8/5N2 b - - 0 1",
    "8/8/4k3/8/8/4K3/8/5B2 w - - 0 1",
    "8/8/4k3/8/8/4K3/8/5B2 b - - 0 1",
    "8/8/4k3/8/8/4K3/8/4NN2 w - - 0 1",
    "2b5/8/4k3/8/8/4K3/8/5B2 w - - 0 1",
    "2n5/8/4k3/8/8/4K3/8/5B2 b - - 0 1",
    "8/8/4k3/8/8/4K3/8/5R2 w - - 0 1",
    "8/8/4k3/8/8/4K3/8/5Q2 b - - 0 1",
    "k7/8/1K6/8/8/8/8/8 b - - 0 1",
    "k7/2K5/8/8/8/8/8/1R6 w - - 0 1",
];

/// Positions whose best move is of a special kind (promotion, capture-promotion, en passant,
/// castling, double push). Searched again in the same process the answer may be served from what
/// the earlier search stored: whatever is stored must still come out as a legal move, letter and all.
pub const SPECIAL_BEST: &[(&str, &str)] = &[
    ("promotion", "8/P6k/8/8/8/8/8/K7 w - - 0 1"),
    ("promotion one move away", "8/7k/P7/8/8/8/8/K7 w - - 0 1"),
    ("capture-promotion", "1r5k/P7/8/8/8/8/8/K7 w - - 0 1"),
    ("en passant", "8/8/8/3pP3/8/8/8/K6k w - d6 0 1"),
    ("castling (mates)", "8/8/8/4Q3/6p1/5k2/8/2N1K2R w K - 0 1"),
    ("queen-side castling (mates)", "8/8/8/3Q4/1p6/2k5/8/R3K1N1 w Q - 0 1"),
    ("double push", "7k/8/8/8/8/8/4P3/4K3 w - - 0 1"),
];
pub const SPECIAL_GOS: &[&str] = &["go depth 1", "go depth 2", "go depth 3", "go depth 4", "go movetime 37"];

pub const HORIZON_S: u64 = 60;

/// "Ghost twins": for a move that changes more than the mover's square (castling: the rook moves
/// too; en passant: the captured pawn is not on the destination square; double push: a target is
/// set), the position reached by the move and the valid position that differs from it by exactly
/// the part a move-by-move update could forget (rook still at home, victim still there, no target).
/// A search of the first position caches results for the true child; the ghost searched next in the
/// same process must get an answer that is legal in the ghost. Returns (position, ghost) pairs.
pub fn ghost_twins() -> Vec<(Pos, Pos)> {
    use crate::refchess::{file_of, rank_of, sq_at, Kind, Side};
    let mut bases: Vec<Pos> = Vec::new();
    // castling: K e1 with both rooks and both rights, a white knight far away, the black king on
    // every square, alone or with a bishop / rook that gives it replies along lines the rook changes
    for bk in 0..64u8 {
        for extra in 0..4 {
            let mut p = Pos::empty();
            p.sq[4] = Some((Side::W, Kind::K));
            p.sq[0] = Some((Side::W, Kind::R));
            p.sq[7] = Some((Side::W, Kind::R));
            p.castle = [true, true, false, false];
            if p.sq[bk as usize].is_some() {
                continue;
            }
            p.sq[bk as usize] = Some((Side::B, Kind::K));
            let (sq, man) = match extra {
                0 => (255usize, Kind::B),
                1 => (36usize, Kind::B), // e5
                2 => (50usize, Kind::R), // c7
                _ => (21usize, Kind::N), // f3 is attacked..: use f6 instead below
            };
            let sq = if extra == 3 { 45 } else { sq };
            if sq != 255 {
                if p.sq[sq].is_some() {
                    continue;
                }
                p.sq[sq] = Some((Side::B, man));
            }
            p.stm = Side::W;
            if p.validity().is_ok() {
                bases.push(p);
            }
        }
    }
    // castling that mates (the search's first choice, so the line below it is the principal
    // variation and its results are cached as exact): K e1 + R h1 / a1 + Q anywhere, k anywhere
    for (rook_home, right) in [(7usize, 0usize), (0usize, 1usize)] {
        for q in 0..64usize {
            for bk in 0..64usize {
                if [4, rook_home, q].contains(&bk) || [4, rook_home].contains(&q) {
                    continue;
                }
                let mut p = Pos::empty();
                p.sq[4] = Some((Side::W, Kind::K));
                p.sq[rook_home] = Some((Side::W, Kind::R));
                p.sq[q] = Some((Side::W, Kind::Q));
                p.sq[bk] = Some((Side::B, Kind::K));
                p.castle[right] = true;
                p.stm = Side::W;
                if p.validity().is_err() {
                    continue;
                }
                let castle = Mv { from: 4, to: if rook_home == 7 { 6 } else { 2 }, promo: None };
                if p.legal_moves().contains(&castle) && p.make(castle).is_checkmate() {
                    bases.push(p);
                }
            }
        }
    }
    // castling that attacks: the rook lands on the f- / d-file with the black king on or next to
    // it and a loose black piece around, so that castling is often the search's first choice (how
    // often is counted when the histories are run: only then are the results below it cached as exact)
    for (rook_home, right, king_files) in [(7usize, 0usize, [5i32, 6, 7]), (0usize, 1usize, [3i32, 2, 1])] {
        for kf in king_files {
            for kr in 1..7i32 {
                let bk = sq_at(kf, kr).unwrap() as usize;
                for kind in [Kind::B, Kind::R] {
                    for ps in 24..48usize {
                        if ps == bk {
                            continue;
                        }
                        let mut p = Pos::empty();
                        p.sq[4] = Some((Side::W, Kind::K));
                        p.sq[rook_home] = Some((Side::W, Kind::R));
                        p.sq[bk] = Some((Side::B, Kind::K));
                        p.sq[ps] = Some((Side::B, kind));
                        p.castle[right] = true;
                        p.stm = Side::W;
                        let castle = Mv { from: 4, to: if rook_home == 7 { 6 } else { 2 }, promo: None };
                        if p.validity().is_ok() && p.legal_moves().contains(&castle) {
                            bases.push(p);
                        }
                    }
                }
            }
        }
    }
    // en passant: white pawn e5, black pawn d5 just pushed, a black rook behind it on d8, kings around
    for wk in [0u8, 6, 16, 23, 4] {
        for bk in [63u8, 57, 47, 40, 62, 55] {
            for rook in [59usize, 3usize, 255usize] {
                let mut p = Pos::empty();
                p.sq[36] = Some((Side::W, Kind::P)); // e5
                p.sq[35] = Some((Side::B, Kind::P)); // d5
                if wk == bk || p.sq[wk as usize].is_some() || p.sq[bk as usize].is_some() {
                    continue;
                }
                p.sq[wk as usize] = Some((Side::W, Kind::K));
                p.sq[bk as usize] = Some((Side::B, Kind::K));
                if rook != 255 {
                    if p.sq[rook].is_some() {
                        continue;
                    }
                    p.sq[rook] = Some((Side::B, Kind::R));
                }
                p.ep = Some(43); // d6
                p.stm = Side::W;
                if p.validity().is_ok() {
                    bases.push(p);
                }
            }
        }
    }
    // double pushes: kings and a pawn on its home square next to an enemy pawn that could take en passant
    for wk in [4u8, 0, 23] {
        for bk in [60u8, 63, 40] {
            let mut p = Pos::empty();
            p.sq[12] = Some((Side::W, Kind::P)); // e2
            p.sq[27] = Some((Side::B, Kind::P)); // d4
            p.sq[29] = Some((Side::B, Kind::P)); // f4
            if p.sq[wk as usize].is_some() || p.sq[bk as usize].is_some() {
                continue;
            }
            p.sq[wk as usize] = Some((Side::W, Kind::K));
            p.sq[bk as usize] = Some((Side::B, Kind::K));
            p.stm = Side::W;
            if p.validity().is_ok() {
                bases.push(p);
            }
        }
    }
    let mut out: Vec<(Pos, Pos)> = Vec::new();
    for base in bases {
        for q in [base.clone(), base.mirror()] {
            for m in q.legal_moves() {
                let (_, kind) = q.sq[m.from as usize].unwrap();
                let c = q.make(m);
                let mut g = c.clone();
                let df = (file_of(m.to) - file_of(m.from)).abs();
                let dr = (rank_of(m.to) - rank_of(m.from)).abs();
                if kind == Kind::K && df == 2 {
                    // castling: put the rook back
                    let r = rank_of(m.from);
                    let (home, now) = if file_of(m.to) == 6 { (sq_at(7, r).unwrap(), sq_at(5, r).unwrap()) } else { (sq_at(0, r).unwrap(), sq_at(3, r).unwrap()) };
                    g.sq[home as usize] = g.sq[now as usize];
                    g.sq[now as usize] = None;
                } else if kind == Kind::P && df == 1 && q.sq[m.to as usize].is_none() {
                    // en passant: the victim stays
                    let v = sq_at(file_of(m.to), rank_of(m.from)).unwrap();
                    g.sq[v as usize] = Some((q.stm.other(), Kind::P));
                } else if kind == Kind::P && dr == 2 {
                    if c.ep.is_none() {
                        continue;
                    }
                    g.ep = None;
                } else {
                    continue;
                }
                if g.validity().is_ok() && !g.legal_moves().is_empty() && g != c {
                    out.push((q.clone(), g));
                }
            }
        }
    }
    out
}



pub fn model_position(cmd: &str) -> Pos {
    let toks: Vec<&str> = cmd.split_whitespace().collect();
    let (mut p, rest) = if toks.get(1) == Some(&"startpos") { (Pos::start(), &toks[2..]) } else { (Pos::from_fen(&toks[2..8].join(" ")).unwrap(), &toks[8..]) };
    if rest.first() == Some(&"moves") {
        for t in &rest[1..] {
            p = p.make(Mv::parse(t).unwrap());
        }
    }
    p
}

/// `steps` = commands in order; every `go` is followed by an isready sentinel on the wire.
pub fn judge(steps: &[String], r: &RunResult) -> Result<u64, String> {
    if r.timed_out {
        return Err(format!("no exit within {} s after the input ended", HORIZON_S));
    }
    if r.signal.is_some() || r.exit_code != Some(0) {
        return Err(format!("engine ended with exit status {:?} signal {:?}", r.exit_code, r.signal));
    }
    let out: Vec<&str> = r.stdout.lines().map(|l| l.trim_end()).collect();
    let mut segs: Vec<Vec<&str>> = vec![vec![]];
    for l in out {
        if l == "readyok" {
            segs.push(vec![]);
        } else {
            segs.last_mut().unwrap().push(l);
        }
    }
    let tail = segs.pop().unwrap();
    if !tail.is_empty() {
        return Err(format!("output after the last readyok: {:?}", tail));
    }
    let mut pos = Pos::start();
    let mut gi = 0usize;
    let mut zero_moves = 0u64;
    for (n, s) in steps.iter().enumerate() {
        if s == "ucinewgame" {
            pos = Pos::start();
        } else if s.starts_with("position") {
            pos = model_position(s);
        } else if s.starts_with("go") {
            let seg = match segs.get(gi) {
                Some(x) => x,
                None => return Err(format!("step {} ({:?}): no answer (and no readyok) for this go", n + 1, s)),
            };
            gi += 1;
            let best: Vec<&&str> = seg.iter().filter(|l| l.starts_with("bestmove")).collect();
            if best.len() != 1 {
                return Err(format!("step {} ({:?}): {} bestmove lines, expected exactly one; output {:?}", n + 1, s, best.len(), seg));
            }
            if let Some(other) = seg.iter().find(|l| !l.starts_with("bestmove") && !l.starts_with("info ")) {
                return Err(format!("step {} ({:?}): unexpected output line {:?}", n + 1, s, other));
            }
            if !seg.last().unwrap().starts_with("bestmove") {
                return Err(format!("step {} ({:?}): output continues after bestmove: {:?}", n + 1, s, seg));
            }
            let mv = best[0].split_whitespace().nth(1).unwrap_or("");
            let legal = pos.legal_moves();
            if legal.is_empty() {
                zero_moves += 1;
                if mv != "0000" {
                    return Err(format!("step {} ({:?}): answered {:?} in {:?}, which has no legal move (expected 0000)", n + 1, s, mv, pos.fen4()));
                }
            } else {
                match Mv::parse(mv) {
                    Some(m) if legal.contains(&m) => {}
                    _ => return Err(format!("step {} ({:?}): answered {:?}, not a legal move in {:?} ({} legal moves)", n + 1, s, mv, pos.fen4(), legal.len())),
                }
            }
        }
    }
    if gi != segs.len() {
        return Err(format!("{} readyok-delimited answers for {} go commands", segs.len(), gi));
    }
    Ok(zero_moves)
}

fn wire(steps: &[String]) -> Vec<u8> {
    let mut s = String::new();
    for st in steps {
        s.push_str(st);
        s.push('\n');
        if st.starts_with("go") {
            s.push_str("isready\n");
        }
    }
    s.into_bytes()
}

pub fn check_history(rep: &Report, exe: &str, steps: &[String]) -> bool {
    check_history_clock(rep, exe, steps, 1)
}

/// As `check_history`, with `nodes_per_ms` nodes per millisecond of the engine's clock (1000 is
/// about the speed of the real engine: its budgets then buy the depth they buy in play).
pub fn check_history_clock(rep: &Report, exe: &str, steps: &[String], nodes_per_ms: u64) -> bool {
    check_history_opt(rep, exe, steps, nodes_per_ms, true) == Some(true)
}

/// `timeout_is_verdict` = false for searches limited by depth only on positions where nothing in
/// the property bounds their duration: a run that is still searching at the horizon is then not
/// judged (None); a run that ends is judged as always.
pub fn check_history_opt(rep: &Report, exe: &str, steps: &[String], nodes_per_ms: u64, timeout_is_verdict: bool) -> Option<bool> {
    let o = Opts { exe, node_clock: Some(nodes_per_ms), zseed: None, horizon: Duration::from_secs(HORIZON_S) };
    let r = match blackbox::run(&o, &wire(steps)) {
        Ok(r) => r,
        Err(e) => {
            eprintln!("MACHINERY ERROR: {}", e);
            std::process::exit(2);
        }
    };
    if r.timed_out && !timeout_is_verdict {
        return None;
    }
    match judge(steps, &r) {
        Ok(_) => Some(true),
        Err(text) => {
            let joined = steps.join(" | ");
            rep.violation(
                format!("C03 history={}", joined),
                format!("history [{}] (node clock: {} node(s) = 1 ms): {}", joined, nodes_per_ms, text),
                vec!["c03-one".to_string(), "--history".into(), joined.clone(), "--nodes-per-ms".into(), nodes_per_ms.to_string()],
                J::obj().set("stdout_tail", r.stdout.lines().rev().take(8).collect::<Vec<_>>()),
            );
            Some(false)
        }
    }
}

fn step_options(with_newgame: bool) -> Vec<Vec<String>> {
    let mut v = Vec::new();
    for (pi, (_, p)) in POSITIONS.iter().enumerate() {
        for (g, timed) in GOS {
            if pi == EXPLOSION && !timed {
                continue;
            }
            v.push(vec![p.to_string(), g.to_string()]);
            if with_newgame {
                v.push(vec!["ucinewgame".to_string(), p.to_string(), g.to_string()]);
            }
        }
    }
    v
}

pub fn run(tier: &str, seed: u64, out: &str, exe: &str) {
    let mut rep = Report::new("C03", tier, seed);
    // every violation is replayed twice on the real binary (up to the horizon each): a handful is evidence enough
    rep.max_violations = 6;
    let thorough = tier == "thorough";
    let runs = AtomicU64::new(0);
    let gos = AtomicU64::new(0);
    let mut parts = Vec::new();
    let mut samples = Vec::new();

    // ---- (a) histories
    let first = step_options(false);
    let second = step_options(true);
    let mut histories: Vec<Vec<String>> = Vec::new();
    for a in &first {
        histories.push(a.clone());
        for b in &second {
            let mut h = a.clone();
            h.extend(b.iter().cloned());
            histories.push(h);
        }
    }
    let n2 = histories.len();
    if thorough {
        // length 3 over a reduced alphabet: positions {start, after e4 e5, K+P, mated, explosion} x
        // go {depth 2, movetime 0, movetime 37, clock in the reserve}
        let ps = [0usize, 1, 3, 6, 8];
        let gs = [1usize, 2, 4, 6];
        let mut opts: Vec<Vec<String>> = Vec::new();
        for p in ps {
            for g in gs {
                if p == EXPLOSION && !GOS[g].1 {
                    continue;
                }
                opts.push(vec![POSITIONS[p].1.to_string(), GOS[g].0.to_string()]);
            }
        }
        for a in &opts {
            for b in &opts {
                for c in &opts {
                    let mut h = a.clone();
                    h.extend(b.iter().cloned());
                    h.extend(c.iter().cloned());
                    histories.push(h);
                }
            }
        }
    }
    let res: Vec<bool> = par_map(&histories, |h| {
        if rep.saturated() {
            return false;
        }
        runs.fetch_add(1, Ordering::Relaxed);
        gos.fetch_add(h.iter().filter(|s| s.starts_with("go")).count() as u64, Ordering::Relaxed);
        check_history(&rep, exe, h)
    });
    eprintln!("[C03] histories: {} of length <= 2, {} of length 3; {} as expected ({:.1}s)", n2, histories.len() - n2, res.iter().filter(|x| **x).count(), rep.elapsed());
    samples.push(J::Str(histories[n2 / 2].join(" | ")));
    samples.push(J::Str(histories[n2 - 1].join(" | ")));
    parts.push(
        J::obj()
            .set("part", "a: command histories")
            .set("positions", POSITIONS.iter().map(|p| p.1).collect::<Vec<_>>())
            .set("go_parameter_sets", GOS.iter().map(|g| g.0).collect::<Vec<_>>())
            .set("histories_length_le_2", n2)
            .set("histories_length_3_reduced_alphabet", histories.len() - n2)
            .set("excluded", "quiescence-explosion position with a depth-only go (does not end in practical time)"),
    );

    // ---- (c) twin positions: same placement, differing in exactly one of en-passant target,
    // castling rights or side to move, searched one after the other in the same process in both
    // orders (what one search cached must never yield an illegal answer for the twin)
    if !rep.saturated() {
        let mut jobs: Vec<Vec<String>> = Vec::new();
        for group in TWINS {
            for a in group.iter() {
                for b in group.iter() {
                    if a == b {
                        continue;
                    }
                    for (ga, _) in GOS {
                        for (gb, _) in GOS {
                            jobs.push(vec![format!("position fen {}", a), ga.to_string(), format!("position fen {}", b), gb.to_string()]);
                        }
                    }
                }
            }
        }
        let res: Vec<bool> = par_map(&jobs, |h| {
            if rep.saturated() {
                return false;
            }
            runs.fetch_add(1, Ordering::Relaxed);
            gos.fetch_add(2, Ordering::Relaxed);
            check_history(&rep, exe, h)
        });
        eprintln!("[C03] twin positions: {} groups, {} two-step histories, {} as expected ({:.1}s)", TWINS.len(), jobs.len(), res.iter().filter(|x| **x).count(), rep.elapsed());
        samples.push(J::Str(jobs[jobs.len() / 2].join(" | ")));
        parts.push(J::obj().set("part", "c: twin positions (one component differs), every ordered pair within a group x every pair of go sets").set("groups", TWINS.iter().map(|g| g.to_vec()).collect::<Vec<_>>()).set("runs", jobs.len()));
    }

    // ---- (e) positions whose best move is of a special kind, searched two and three times in one
    // process with every pair (triple) of go sets; also with the colours exchanged
    if !rep.saturated() {
        let mut jobs: Vec<Vec<String>> = Vec::new();
        for (_, f) in SPECIAL_BEST {
            let p = Pos::from_fen(f).unwrap();
            if let Err(e) = p.validity() {
                eprintln!("MACHINERY ERROR: C03 special position {:?}: {}", f, e);
                std::process::exit(2);
            }
            for q in [p.clone(), p.mirror()] {
                let pc = format!("position fen {}", q.fen(0, 1));
                for a in SPECIAL_GOS {
                    for b in SPECIAL_GOS {
                        jobs.push(vec![pc.clone(), a.to_string(), pc.clone(), b.to_string()]);
                    }
                }
                for a in ["go depth 4", "go depth 2", "go movetime 3"] {
                    for b in ["go depth 4", "go depth 2", "go movetime 3"] {
                        for c in ["go depth 3", "go depth 1", "go movetime 3"] {
                            jobs.push(vec![pc.clone(), a.to_string(), pc.clone(), b.to_string(), pc.clone(), c.to_string()]);
                        }
                    }
                }
            }
        }
        let res: Vec<bool> = par_map(&jobs, |h| {
            if rep.saturated() {
                return false;
            }
            runs.fetch_add(1, Ordering::Relaxed);
            gos.fetch_add(h.iter().filter(|s| s.starts_with("go")).count() as u64, Ordering::Relaxed);
            check_history(&rep, exe, h)
        });
        eprintln!("[C03] special best moves searched again: {} positions (both colours), {} histories, {} as expected ({:.1}s)", SPECIAL_BEST.len(), jobs.len(), res.iter().filter(|x| **x).count(), rep.elapsed());
        parts.push(
            J::obj()
                .set("part", "e: positions whose best move is a promotion / capture-promotion / en passant / castling / double push, searched two and three times in one process (the later answers may be served from the table)")
                .set("positions", SPECIAL_BEST.iter().map(|p| p.1).collect::<Vec<_>>())
                .set("go_sets", SPECIAL_GOS.to_vec())
                .set("runs", jobs.len()),
        );
    }

    // ---- (h) ghost twins: a position in which castling / en passant / a double push is possible
    // is searched, then the valid position that differs from the move's true result by what a
    // move-by-move update could forget, in the same process (and the other way round)
    if !rep.saturated() {
        let twins = ghost_twins();
        if twins.len() < 100 {
            eprintln!("MACHINERY ERROR: C03 ghost twins: only {} pairs built", twins.len());
            std::process::exit(2);
        }
        let mut jobs: Vec<Vec<String>> = Vec::new();
        for (p, g) in &twins {
            let pc = format!("position fen {}", p.fen(0, 1));
            let gc = format!("position fen {}", g.fen(0, 1));
            jobs.push(vec![pc.clone(), "go depth 4".into(), gc.clone(), "go depth 3".into(), gc.clone(), "go depth 1".into()]);
            jobs.push(vec![pc.clone(), "go depth 3".into(), gc.clone(), "go depth 2".into(), gc.clone(), "go depth 1".into()]);
            if thorough {
                jobs.push(vec![gc.clone(), "go depth 4".into(), pc.clone(), "go depth 3".into(), pc.clone(), "go depth 1".into()]);
                jobs.push(vec![pc.clone(), "go depth 5".into(), gc.clone(), "go depth 4".into(), gc.clone(), "go depth 2".into()]);
            }
        }
        let res: Vec<bool> = par_map(&jobs, |h| {
            if rep.saturated() {
                return false;
            }
            runs.fetch_add(1, Ordering::Relaxed);
            gos.fetch_add(h.iter().filter(|s| s.starts_with("go")).count() as u64, Ordering::Relaxed);
            check_history(&rep, exe, h)
        });
        eprintln!("[C03] ghost twins: {} pairs, {} histories, {} as expected ({:.1}s)", twins.len(), jobs.len(), res.iter().filter(|x| **x).count(), rep.elapsed());
        samples.push(J::Str(jobs[jobs.len() / 2].join(" | ")));
        parts.push(
            J::obj()
                .set("part", "h: ghost twins: a position with castling / en passant / a double push available, then (same process) the valid position that differs from the move's result by exactly what an incremental update could forget (rook still at home, captured pawn still there, no en-passant target)")
                .set("pairs", twins.len())
                .set("runs", jobs.len()),
        );
    }

    // ---- (f) a search at the end of a very long game (every position of the game is recorded for
    // the repetition rule: whatever holds that record must hold thousands of plies), for several
    // lengths around the powers of two
    if !rep.saturated() {
        let game = crate::longgame::very_long_game(4800);
        let mut lens: Vec<usize> = vec![game.len()];
        for k in 8..=12 {
            for d in [0usize, 1, 2] {
                lens.push((1usize << k) + d - 1);
            }
        }
        lens.retain(|l| *l <= game.len());
        lens.sort();
        lens.dedup();
        let mut jobs: Vec<Vec<String>> = Vec::new();
        for l in &lens {
            let pc = format!("position startpos moves {}", game[..*l].iter().map(|m| m.uci()).collect::<Vec<_>>().join(" "));
            // late in this game many pawns stand one step from promotion and a depth-only search
            // does not end in practical time (outside the property, like the explosion position):
            // depth-only only while the pawns are still at home
            let gos: &[&str] = if *l <= 600 { &["go depth 2", "go movetime 37"] } else { &["go movetime 37", "go movetime 500"] };
            for g in gos {
                jobs.push(vec![pc.clone(), g.to_string()]);
            }
        }
        let res: Vec<bool> = par_map(&jobs, |h| {
            if rep.saturated() {
                return false;
            }
            runs.fetch_add(1, Ordering::Relaxed);
            gos.fetch_add(1, Ordering::Relaxed);
            check_history(&rep, exe, h)
        });
        eprintln!("[C03] searches after a very long game: {} lengths up to {} plies, {} runs, {} as expected ({:.1}s)", lens.len(), game.len(), jobs.len(), res.iter().filter(|x| **x).count(), rep.elapsed());
        parts.push(J::obj().set("part", "f: a search at the end of a built legal game of thousands of plies (lengths 2^k-1, 2^k, 2^k+1 for k = 8..12 and the whole game)").set("longest_game_plies", game.len()).set("runs", jobs.len()));
    }

    // ---- (g) the depth cap: positions in which the search tree collapses in the table (bare
    // kings), so that the deepest iteration the engine allows really completes -- by a depth
    // limit at and beyond the cap, and by budgets that buy that depth at the engine's real speed
    if !rep.saturated() {
        let mut jobs: Vec<(Vec<String>, u64)> = Vec::new();
        for f in ["8/8/4k3/8/8/4K3/8/8 w - - 0 1", "8/8/4k3/8/8/4K3/8/8 b - - 0 1", "8/8/3k4/8/8/3K4/8/8 w - - 0 1"] {
            let pc = format!("position fen {}", f);
            for g in ["go depth 62", "go depth 63", "go depth 64", "go depth 65", "go depth 128", "go depth 255"] {
                jobs.push((vec![pc.clone(), g.to_string()], 1));
            }
            for g in ["go wtime 30000 btime 30000", "go movetime 2000", "go wtime 300000 btime 300000 winc 2000 binc 2000"] {
                jobs.push((vec![pc.clone(), g.to_string()], 1000));
                jobs.push((vec![pc.clone(), g.to_string(), pc.clone(), g.to_string()], 1000));
            }
        }
        let res: Vec<Option<bool>> = par_map(&jobs, |(h, npm)| {
            if rep.saturated() {
                return None;
            }
            runs.fetch_add(1, Ordering::Relaxed);
            gos.fetch_add(h.iter().filter(|s| s.starts_with("go")).count() as u64, Ordering::Relaxed);
            // a depth-only search may take as long as it likes: judged only if it ends
            check_history_opt(&rep, exe, h, *npm, *npm != 1)
        });
        let unjudged = res.iter().filter(|x| x.is_none()).count();
        eprintln!("[C03] depth cap on bare kings: {} runs, {} as expected, {} depth-only searches still running at the horizon (not judged) ({:.1}s)", jobs.len(), res.iter().filter(|x| **x == Some(true)).count(), unjudged, rep.elapsed());
        parts.push(J::obj().set("part", "g: bare-king positions searched to the engine's depth cap (go depth 62..255; clock and movetime budgets at 1000 nodes per ms, once and twice in a process)").set("runs", jobs.len()).set("depth_only_searches_not_finished_at_the_horizon_and_not_judged", unjudged));
    }

    // ---- (d) single searches of many positions: every special root (with colour mirrors) and
    // bare-material positions x every go set (thorough: also every state one ply from a root)
    if !rep.saturated() {
        let mut roots = crate::roots::all_roots().unwrap_or_else(|e| {
            eprintln!("MACHINERY ERROR: {}", e);
            std::process::exit(2)
        });
        // positions with move lists as long as chess allows (218 legal moves, 132 tactical moves):
        // a root list or an ordering buffer of fixed capacity must still yield a legal answer
        roots.extend(crate::roots::extreme_roots().unwrap_or_else(|e| {
            eprintln!("MACHINERY ERROR: {}", e);
            std::process::exit(2)
        }));
        let mut fens: Vec<String> = roots.iter().map(|r| r.pos.fen(0, 1)).collect();
        for f in BARE {
            let p = Pos::from_fen(f).unwrap();
            if let Err(e) = p.validity() {
                eprintln!("MACHINERY ERROR: C03 bare position {:?}: {}", f, e);
                std::process::exit(2);
            }
            fens.push(p.fen(0, 1));
            fens.push(p.mirror().fen(0, 1));
        }
        // depth-only searches only for the bare-material positions: several roots have
        // quiescence trees of millions of nodes, which a depth-only go must search completely
        let n_roots = roots.len();
        let mut jobs: Vec<Vec<String>> = Vec::new();
        for (i, f) in fens.iter().enumerate() {
            for (g, timed) in GOS {
                if *timed || i >= n_roots {
                    jobs.push(vec![format!("position fen {}", f), g.to_string()]);
                }
            }
        }
        let n_root_jobs = jobs.len();
        if thorough {
            let mut seen = std::collections::HashSet::new();
            for r in &roots {
                for m in r.pos.legal_moves() {
                    let n = r.pos.make(m);
                    if seen.insert(n.fen4()) {
                        for g in ["go movetime 500", "go movetime 37"] {
                            jobs.push(vec![format!("position fen {}", n.fen(0, 1)), g.to_string()]);
                        }
                    }
                }
            }
        }
        let res: Vec<bool> = par_map(&jobs, |h| {
            if rep.saturated() {
                return false;
            }
            runs.fetch_add(1, Ordering::Relaxed);
            gos.fetch_add(1, Ordering::Relaxed);
            check_history(&rep, exe, h)
        });
        eprintln!("[C03] single searches: {} positions x {} go sets (+{} one ply from a root), {} as expected ({:.1}s)", fens.len(), GOS.len(), jobs.len() - n_root_jobs, res.iter().filter(|x| **x).count(), rep.elapsed());
        parts.push(J::obj().set("part", "d: single searches on a fresh process").set("positions", fens.len()).set("go_sets", GOS.len()).set("runs", jobs.len()));
    }

    // ---- (b) budget sweep
    if !rep.saturated() {
        let t_max: u64 = if thorough { 1700 } else { 420 };
        let sweep_positions = [0usize, 1, 2, 3, 4, 8];
        let mut jobs: Vec<Vec<String>> = Vec::new();
        for pi in sweep_positions {
            let p = POSITIONS[pi].1.to_string();
            for n in 0..=t_max {
                let g = format!("go movetime {}", n);
                jobs.push(vec![p.clone(), g.clone()]);
                if pi != EXPLOSION {
                    jobs.push(vec![p.clone(), "go depth 2".to_string(), p.clone(), g.clone()]);
                }
                jobs.push(vec![p.clone(), format!("go movetime {}", (n / 2).max(1)), p.clone(), g.clone()]);
            }
        }
        let res: Vec<bool> = par_map(&jobs, |h| {
            if rep.saturated() {
                return false;
            }
            runs.fetch_add(1, Ordering::Relaxed);
            gos.fetch_add(h.iter().filter(|s| s.starts_with("go")).count() as u64, Ordering::Relaxed);
            check_history(&rep, exe, h)
        });
        eprintln!("[C03] budget sweep: movetime 0..={} on {} positions, {} runs, {} as expected ({:.1}s)", t_max, sweep_positions.len(), jobs.len(), res.iter().filter(|x| **x).count(), rep.elapsed());
        samples.push(J::Str(jobs[jobs.len() / 3].join(" | ")));
        parts.push(
            J::obj()
                .set("part", "b: budget sweep, go movetime N for every N")
                .set("n_from", 0)
                .set("n_to", t_max)
                .set("positions", sweep_positions.iter().map(|i| POSITIONS[*i].0).collect::<Vec<_>>())
                .set("variants", vec!["fresh process", "after a completed depth-2 search of the same position", "after a search of the same position interrupted at N/2"])
                .set("runs", jobs.len()),
        );
    }

    let n = runs.load(Ordering::Relaxed);
    let g = gos.load(Ordering::Relaxed);
    let cov = J::obj()
        .set("states", n)
        .set("transitions", g)
        .set("traces_validated_against_impl", n)
        .set("evaluations", n)
        .set("distinct_nontrivial", n)
        .set("rule", "a case = one complete command history given to a fresh engine process under the node clock; every go in it must be answered by exactly one bestmove that is legal in the last position set (0000 iff there is no legal move); all histories are distinct")
        .set("go_commands_judged", g)
        .set("parts", J::Arr(parts))
        .set("samples", J::Arr(samples))
        .set("exhaustive", true)
        .set("bound", "all histories of the listed shape and length over the listed alphabet; every budget 0..T for the sweep positions");
    rep.finish(
        "model_checking",
        cov,
        vec![
            "time is virtual: FLOUNDER_VERIF_NODE_CLOCK=1 makes a budget of N ms expire at node N (hook in timer.rs); the wall clock is used only as a termination horizon".into(),
            "go without any limit, go infinite, depth 0 and depth-only searches of the quiescence-explosion position are outside the property and not sent".into(),
        ],
        out,
    );
}

pub fn replay(history: &str, exe: &str, nodes_per_ms: u64) -> i32 {
    let rep = Report::new("C03", "quick", 0);
    let steps: Vec<String> = history.split(" | ").map(|s| s.trim().to_string()).collect();
    check_history_clock(&rep, exe, &steps, nodes_per_ms);
    let v = rep.violations.lock().unwrap();
    for x in v.iter() {
        println!("REPLAY-VIOLATION {} :: {}", x.sig, x.text);
    }
    if v.is_empty() {
        println!("REPLAY-OK C03 {}", history);
        0
    } else {
        1
    }
}
