//! C06 (a search cut off by the clock leaves nothing behind) and C07 (search stops promptly at
//! its deadline): fault enumeration. Under the node clock (1 node = 1 ms) a time limit of N ms
//! makes the deadline fall exactly at node N, so every point 0..T of a search is enumerated.

use crate::board::Board;
use crate::eng::{self, guard};
use crate::json::J;
use crate::move_gen::MoveGenerator;
use crate::par::par_map;
use crate::refchess::Pos;
use crate::report::Report;
use crate::search::Searcher;
use crate::searchref::{compare, RefCache};
use std::sync::atomic::{AtomicU64, Ordering};
use std::time::Duration;

/// Further nodes allowed after the deadline was first observed. Deliberately generous (today's
/// code needs 1-2): polling the clock every 1024 nodes would be a legitimate optimisation,
/// while a loop that never looks at the clock overruns by the size of the remaining subtree.
pub const OVERRUN_LIMIT: u64 = 2048;

/// Work between two looks at the clock must be bounded too: counting nodes cannot see a single node
/// that computes for seconds (an exchange evaluator trying every capture order, say). Every
/// interrupted search of the C07 sweeps is therefore also timed in CPU time of its own thread
/// (not wall time, so a busy machine does not matter) and must stay within
/// WORK_PER_NODE_US x (nodes it visited) + WORK_BASE_MS. The engine needs 1-3 us per node; the
/// bound is two orders of magnitude above that.
pub const WORK_PER_NODE_US: u64 = 200;
pub const WORK_BASE_MS: u64 = 25;

/// Positions in which a single node has as much to do as chess allows: one square contested by up
/// to seven men a side, the largest known number of legal moves, every man pinned or hanging.
pub const DENSE_POSITIONS: &[(&str, &str)] = &[
    ("d5 contested by seven men a side", "3r2k1/1bnqn3/1n2pn2/3p4/1NP2N2/2N1N3/3Q2B1/3R2K1 w - - 0 1"),
    ("d5 contested by five men a side", "3r2k1/1b1qn3/4pn2/3p4/1NP2N2/2N5/3Q2B1/6K1 w - - 0 1"),
    ("d5 contested, black to move", "3r2k1/1bnqn3/1n2pn2/3p4/1NP2N2/2N1N3/3Q2B1/3R2K1 b - - 0 1"),
    ("218 legal moves", "R6R/3Q4/1Q4Q1/4Q3/2Q4Q/Q4Q2/pp1Q4/kBNN1KB1 w - - 0 1"),
    ("six queens against a bare king", "1k6/8/8/8/8/2QQQQ1Q/8/Q3K3 w - - 0 1"),
    ("kiwipete", "r3k2r/p1ppqpb1/bn2pnp1/3PN3/1p2P3/2N2Q1p/PPPBBPPP/R3K2R w KQkq - 0 1"),
    ("every file half open, heavy pieces doubled", "2rr2k1/1q3ppp/8/8/8/8/1Q3PPP/2RR2K1 w - - 0 1"),
];

pub const SWEEP_POSITIONS: &[(&str, &str)] = &[
    ("K+P v k", "8/8/8/4k3/8/4K3/4P3/8 w - - 0 1"),
    ("K+R v k", "8/8/8/4k3/8/8/8/R3K3 w - - 0 1"),
    ("K+P v k+p", "8/5p2/8/4k3/8/4K3/4P3/8 b - - 0 1"),
    ("rook endgame", "8/5pk1/6p1/R7/5P2/6P1/r4K2/8 w - - 0 40"),
    ("perft position 3", "8/2p5/3p4/KP5r/1R3p1k/8/4P1P1/8 w - - 0 1"),
    ("minor-piece ending", "8/P4k2/8/8/3n4/8/5K1p/2B5 w - - 0 1"),
    ("queen ending with mate threats", "6k1/5ppp/8/8/8/8/1q3PPP/3Q2K1 w - - 0 1"),
    ("start position", "rnbqkbnr/pppppppp/8/8/8/8/PPPPPPPP/RNBQKBNR w KQkq - 0 1"),
    ("start position after 1.e4 e5", "rnbqkbnr/pppp1ppp/8/4p3/4P3/8/PPPP1PPP/RNBQKBNR w KQkq e6 0 2"),
    ("italian middlegame", "r1bq1rk1/ppp2ppp/2np1n2/2b1p3/2B1P3/2PP1N2/PP3PPP/RNBQ1RK1 w - - 0 7"),
    ("mate in two available", "6k1/5ppp/8/8/8/8/5PPP/3RR1K1 w - - 0 1"),
    ("single legal reply", "7k/8/8/8/8/8/6PP/r5K1 w - - 0 1"),
];

/// Positions whose quiescence search explodes: the full search never finishes, so only the
/// deadline behaviour is examined (C07), for N in 0..cap.
pub const EXPLOSION_POSITIONS: &[(&str, &str)] = &[
    ("five pawns each one step from promoting", "6k1/PPPPP3/8/8/8/8/ppppp3/6K1 w - - 0 1"),
    ("queens en prise everywhere", "k1q1q1q1/1q1q1q2/8/8/8/8/2Q1Q1Q1/1Q1Q1Q1K w - - 0 1"),
    ("mutual promotion race with pieces", "1n2k1n1/PPP3PP/8/8/8/8/ppp3pp/1N2K1N1 w - - 0 1"),
];

fn board(fen: &str) -> Board {
    let p = Pos::from_fen(fen).unwrap_or_else(|e| {
        eprintln!("MACHINERY ERROR: {:?}: {}", fen, e);
        std::process::exit(2)
    });
    if let Err(e) = p.validity() {
        eprintln!("MACHINERY ERROR: sweep position {:?} invalid: {}", fen, e);
        std::process::exit(2);
    }
    eng::board_of(&p).unwrap()
}

/// Nodes of the uninterrupted search, or None if it exceeds `cap` nodes.
fn total_nodes(b: &Board, d: u8, cap: u64) -> Option<u64> {
    crate::timer::verif::set_node_clock(Some(1));
    // this search too may never return on a broken tree: it is a crash point like the others
    // (deadline at node `cap`), so a hang here becomes the same verdict through the watchdog
    let fen = eng::fen_of(b);
    let _job = crate::watch::enter(
        format!("C07 fen={} depth={} no-answer", fen, d),
        format!("{:?} depth {}: search with a budget of {} nodes did not answer after {} s of CPU time (the search does not stop)", fen, d, cap, crate::watch::LIMIT_S),
        vec!["c07-one".to_string(), "--fen".into(), fen.clone(), "--depth".into(), d.to_string(), "--at".into(), cap.to_string()],
    );
    let r = guard(|| {
        let mut s = Searcher::new();
        s.find_best_move(b, d, Some(Duration::from_millis(cap)));
        (s.verif_nodes(), crate::timer::verif::first_stop())
    });
    match r {
        Ok((n, None)) => Some(n),
        _ => None,
    }
}

/// Cases run on the real timing path (zero budget, no node clock)
pub static REAL_ZERO: AtomicU64 = AtomicU64::new(0);

pub struct SweepResult {
    pub deadline_hit: bool,
    pub overrun: u64,
    /// CPU microseconds per visited node of the slowest interrupted search of this point
    pub us_per_node: u64,
}

/// One crash point: fresh searcher, search interrupted at node N (several interruptions if
/// `ns` has more than one element), then a completed search of the same position and depth.
pub fn one_point(which: &str, cache: &RefCache, mg: &MoveGenerator, rep: &Report, name: &str, fen: &str, b: &Board, d: u8, ns: &[u64], check_value: bool) -> SweepResult {
    one_point_to(which, cache, mg, rep, name, fen, b, d, d, ns, check_value)
}

/// As `one_point`, with the completed search run to depth `fd` (d or d + 1). For fd > d the
/// comparison is made only if the table served no result from an entry deeper than requested
/// (otherwise the reference value is not the unambiguous expectation; see DESIGN.md C05/C06).
pub fn one_point_to(which: &str, cache: &RefCache, mg: &MoveGenerator, rep: &Report, name: &str, fen: &str, b: &Board, d: u8, fd: u8, ns: &[u64], check_value: bool) -> SweepResult {
    if rep.violation_count.load(Ordering::Relaxed) >= 5 {
        // enough evidence: do not spend time on further crash points of a failing tree
        return SweepResult { deadline_hit: false, overrun: 0, us_per_node: 0 };
    }
    crate::timer::verif::set_node_clock(Some(1));
    let ns_text = ns.iter().map(|n| n.to_string()).collect::<Vec<_>>().join(",");
    let args = vec![
        if which == "C06" { "c06-one".to_string() } else { "c07-one".to_string() },
        "--fen".into(),
        fen.to_string(),
        "--depth".into(),
        d.to_string(),
        "--at".into(),
        ns_text.clone(),
        "--final-depth".into(),
        fd.to_string(),
    ];
    let _job = crate::watch::enter(
        format!("{} fen={} depth={} no-answer", which, fen, d),
        format!("{} ({:?}) depth {}: deadline at node(s) {} but no answer after {} s of CPU time (the search does not stop)", name, fen, d, ns_text, crate::watch::LIMIT_S),
        args.clone(),
    );
    let run_once = || guard(|| {
        let mut s = Searcher::new();
        let rep0 = s.verif_repetition_len();
        let mut hit = false;
        let mut worst_overrun = 0u64;
        let mut rep_changed = None;
        let mut work: Option<(u64, u64, u64)> = None; // (cpu us, nodes, deadline) of the costliest search per node
        for n in ns {
            let c0 = crate::cputime::thread_cpu();
            s.find_best_move(b, d, Some(Duration::from_millis(*n)));
            let cpu_us = crate::cputime::thread_cpu().saturating_sub(c0).as_micros() as u64;
            let nodes_now = s.verif_nodes().max(1);
            if work.map(|(c, v, _)| cpu_us * v > c * nodes_now).unwrap_or(true) {
                work = Some((cpu_us, nodes_now, *n));
            }
            // under the node clock the deadline falls exactly at node n: everything visited
            // beyond it is work done after the budget expired -- whether or not the search ever
            // asked the clock (a search that stops consulting it must not look punctual)
            let visited = s.verif_nodes();
            if crate::timer::verif::first_stop().is_some() || visited > (*n).max(1) {
                hit = true;
                worst_overrun = worst_overrun.max(visited.saturating_sub((*n).max(1)));
            }
            if s.verif_repetition_len() != rep0 && rep_changed.is_none() {
                rep_changed = Some((*n, s.verif_repetition_len()));
            }
        }
        crate::search::verif::reset_tt_cutoffs();
        let fin = if check_value { Some(s.find_best_move(b, fd, None)) } else { None };
        let deeper = crate::search::verif::tt_cutoffs().1;
        (hit, worst_overrun, rep0, rep_changed, fin, deeper, work)
    });
    // CPU time is read per thread, but a loaded or virtualised host can still inflate it (stolen
    // time, cold caches): a search that looks too expensive is measured again on a fresh searcher,
    // up to four more times, and the cheapest measurement counts. Work that is really there costs
    // its time in every run.
    let mut r = run_once();
    if which == "C07" {
        for _ in 0..4 {
            let too_costly = match &r {
                Ok((_, _, _, _, _, _, Some((cpu_us, visited, _)))) => *cpu_us > WORK_PER_NODE_US * *visited + WORK_BASE_MS * 1000,
                _ => false,
            };
            if !too_costly {
                break;
            }
            let again = run_once();
            let better = match (&again, &r) {
                (Ok((_, _, _, _, _, _, Some((c2, v2, _)))), Ok((_, _, _, _, _, _, Some((c1, v1, _))))) => (*c2 as u128) * (*v1 as u128) < (*c1 as u128) * (*v2 as u128),
                (Err(_), _) => true,
                _ => false,
            };
            if better {
                r = again;
            }
        }
    }
    match r {
        Err(e) => {
            rep.violation(format!("{} fen={} depth={} at={} panic", which, fen, d, ns_text), format!("{} ({:?}) depth {} interrupted at node(s) {}: {}", name, fen, d, ns_text, e), args, J::Null);
            SweepResult { deadline_hit: false, overrun: 0, us_per_node: 0 }
        }
        Ok((hit, overrun, rep0, rep_changed, fin, deeper, work)) => {
            let (cpu_us, visited, at) = work.unwrap_or((0, 1, 0));
            if which == "C07" && cpu_us > WORK_PER_NODE_US * visited + WORK_BASE_MS * 1000 {
                rep.violation(
                    format!("C07 fen={} depth={} work-per-node", fen, d),
                    format!(
                        "{} ({:?}) depth {}: a search with its deadline at node {} consumed more than {} us of CPU per visited node (+{} ms): the work done between two looks at the clock is not small (the engine needs 1-3 us per node)",
                        name, fen, d, at, WORK_PER_NODE_US, WORK_BASE_MS
                    ),
                    args.clone(),
                    J::obj().set("cpu_us", cpu_us).set("nodes_visited", visited).set("deadline_node", at),
                );
            }
            if which == "C07" && overrun > OVERRUN_LIMIT {
                rep.violation(
                    format!("C07 fen={} depth={} overrun", fen, d),
                    format!("{} ({:?}) depth {}: deadline at node {} but the search visited {} further nodes before answering (limit {})", name, fen, d, ns_text, overrun, OVERRUN_LIMIT),
                    args.clone(),
                    J::Null,
                );
            }
            if which == "C06" {
                if let Some((n, len)) = rep_changed {
                    rep.violation(
                        format!("C06 fen={} depth={} history-length", fen, d),
                        format!("{} ({:?}) depth {}: after the search interrupted at node {} the game-history stack holds {} entries, before it held {}", name, fen, d, n, len, rep0),
                        args.clone(),
                        J::Null,
                    );
                }
                if let Some((score, mv)) = fin.filter(|_| (fd == d && d <= 3) || deeper == 0) {
                    if let Err(text) = compare(cache, mg, b, fd, score, mv) {
                        rep.violation(
                            format!("C06 fen={} depth={} final-depth={} value-after-interruption", fen, d, fd),
                            format!("{} ({:?}): search to depth {} interrupted at node(s) {}, then a completed search to depth {} on the same engine: {}", name, fen, d, ns_text, fd, text),
                            args,
                            J::obj().set("score", score).set("move", mv.map(|m| m.to_algebraic())),
                        );
                    }
                }
            }
            SweepResult { deadline_hit: hit, overrun, us_per_node: cpu_us / visited }
        }
    }
}

/// The engine's real timing path (no node clock): a budget of zero expires before the first
/// iteration whatever the wall clock says, so the interruption is deterministic without the hook;
/// the completed search that follows on the same searcher must still report the reference value.
/// What the node clock replaces (how a deadline is kept, armed and cleared) is only exercised here.
pub fn real_zero_point(cache: &RefCache, mg: &MoveGenerator, rep: &Report, name: &str, fen: &str, b: &Board, d: u8, first_depth: u8) -> bool {
    if rep.violation_count.load(Ordering::Relaxed) >= 5 {
        return false;
    }
    let args = vec!["c06-real-zero".to_string(), "--fen".into(), fen.to_string(), "--depth".into(), d.to_string(), "--first-depth".into(), first_depth.to_string()];
    let _job = crate::watch::enter(format!("C06 fen={} depth={} real-zero no-answer", fen, d), format!("{} ({:?}): a search with a budget of 0 ms, then a search to depth {} without a limit: no answer after {} s of CPU time", name, fen, d, crate::watch::LIMIT_S), args.clone());
    crate::timer::verif::set_node_clock(None);
    let r = guard(|| {
        let mut s = Searcher::new();
        s.find_best_move(b, first_depth, Some(Duration::ZERO));
        let interrupted_nodes = s.verif_nodes();
        let fin = s.find_best_move(b, d, None);
        (interrupted_nodes, fin)
    });
    crate::timer::verif::set_node_clock(Some(1));
    match r {
        Err(e) => {
            rep.violation(format!("C06 fen={} depth={} real-zero panic", fen, d), format!("{} ({:?}): budget 0 ms on the real clock, then depth {}: {}", name, fen, d, e), args, J::Null);
            false
        }
        Ok((_, (score, mv))) => {
            if let Err(text) = compare(cache, mg, b, d, score, mv) {
                rep.violation(
                    format!("C06 fen={} depth={} first-depth={} real-zero value-after-interruption", fen, d, first_depth),
                    format!("{} ({:?}), real clock (no node clock): a search to depth {} with a budget of 0 ms (cut off before its first iteration), then a completed search to depth {} on the same engine: {}", name, fen, first_depth, d, text),
                    args,
                    J::obj().set("score", score).set("move", mv.map(|m| m.to_algebraic())),
                );
            }
            true
        }
    }
}

pub fn replay_real_zero(fen: &str, d: u8, first_depth: u8) -> i32 {
    let rep = Report::new("C06", "quick", 0);
    let cache = RefCache::new(200_000);
    let b = board(fen);
    real_zero_point(&cache, crate::eng::tl_mg(), &rep, "replay", fen, &b, d, first_depth);
    let v = rep.violations.lock().unwrap();
    for x in v.iter() {
        println!("REPLAY-VIOLATION {} :: {}", x.sig, x.text);
    }
    if v.is_empty() {
        println!("REPLAY-OK C06 real clock, zero budget, {} depth {}", fen, d);
        0
    } else {
        1
    }
}

/// How the interrupted search is started through the real command handler, for a budget of N ms
/// (= N nodes of the node clock). The clock forms exercise calculate_move_time and whatever the
/// handler does around the search (allowances, extensions) that a direct call never reaches.
pub const COMMAND_MODES: &[&str] = &["movetime", "clock", "clock+increment"];

pub fn go_for_budget(mode: &str, n: u64) -> String {
    match mode {
        "movetime" => format!("go movetime {}", n),
        // no increment: (time - 5000) / 25 = n, well below time / 2
        "clock" => format!("go wtime {t} btime {t} winc 0 binc 0", t = 5000 + 25 * n),
        // the increment dominates and the cap time / 2 = n decides
        _ => format!("go wtime {t} btime {t} winc {t} binc {t}", t = 2 * n),
    }
}

/// One crash point delivered by a go command: fresh engine, `position fen`, the go command whose
/// budget makes the deadline fall at node N, then a completed search of the same position to
/// depth `fd` on the same searcher, compared with the reference value. Only for N smaller than
/// the node count at which iteration `fd` completes (the caller guarantees it), so that no
/// legitimately completed deeper iteration can answer the later search.
pub fn command_point(cache: &RefCache, mg: &MoveGenerator, rep: &Report, name: &str, fen: &str, b: &Board, fd: u8, mode: &str, n: u64) -> bool {
    if rep.violation_count.load(Ordering::Relaxed) >= 5 {
        return false;
    }
    crate::timer::verif::set_node_clock(Some(1));
    let go = go_for_budget(mode, n);
    let args = vec!["c06-cmd".to_string(), "--fen".into(), fen.to_string(), "--final-depth".into(), fd.to_string(), "--mode".into(), mode.to_string(), "--at".into(), n.to_string()];
    let _job = crate::watch::enter(
        format!("C06 fen={} final-depth={} {:?} no-answer", fen, fd, go),
        format!("{} ({:?}): {:?} did not answer after {} s of CPU time", name, fen, go, crate::watch::LIMIT_S),
        args.clone(),
    );
    let r = guard(|| {
        let mut fl = crate::uci::Flounder::new();
        crate::search::verif::set_dry_run(false);
        fl.verif_handle_command(&format!("position fen {}", fen));
        let rep0 = fl.verif_searcher().verif_repetition_len();
        fl.verif_handle_command(&go);
        let budget = crate::search::verif::last_go().and_then(|(_, t)| t).map(|d| d.as_millis() as u64);
        let rep1 = fl.verif_searcher().verif_repetition_len();
        let (score, mv) = fl.verif_searcher().find_best_move(b, fd, None);
        (budget, rep0, rep1, score, mv)
    });
    match r {
        Err(e) => {
            rep.violation(format!("C06 fen={} final-depth={} {:?} panic", fen, fd, go), format!("{} ({:?}) {:?}: {}", name, fen, go, e), args, J::Null);
            false
        }
        Ok((budget, rep0, rep1, score, mv)) => {
            if budget != Some(n) {
                // the handler derived another budget than this harness intended (C12's business);
                // the deadline then fell elsewhere and the precondition N < T is not known to hold
                return false;
            }
            if rep0 != rep1 {
                rep.violation(
                    format!("C06 fen={} {:?} history-length", fen, go),
                    format!("{} ({:?}): after {:?} the game-history stack holds {} entries, before it held {}", name, fen, go, rep1, rep0),
                    args.clone(),
                    J::Null,
                );
            }
            if let Err(text) = compare(cache, mg, b, fd, score, mv) {
                rep.violation(
                    format!("C06 fen={} final-depth={} mode={} value-after-interrupted-go", fen, fd, mode),
                    format!("{} ({:?}): {:?} (interrupted at node {}), then a completed search to depth {} on the same engine: {}", name, fen, go, n, fd, text),
                    args,
                    J::obj().set("score", score).set("move", mv.map(|m| m.to_algebraic())),
                );
            }
            true
        }
    }
}

pub fn replay_command_point(fen: &str, fd: u8, mode: &str, n: u64) -> i32 {
    let rep = Report::new("C06", "quick", 0);
    crate::watch::start_replay();
    let mg = MoveGenerator::new();
    let cache = RefCache::new(200_000);
    let b = board(fen);
    command_point(&cache, crate::eng::tl_mg(), &rep, "replay", fen, &b, fd, mode, n);
    let v = rep.violations.lock().unwrap();
    for x in v.iter() {
        println!("REPLAY-VIOLATION {} :: {}", x.sig, x.text);
    }
    if v.is_empty() {
        println!("REPLAY-OK C06 command point {} {} at {}", fen, mode, n);
        0
    } else {
        1
    }
}

/// Game-history content probe: with a recorded game history in place (two successors of the
/// root pushed, one of them twice), the answers of the real repetition query for the root and
/// four of its successors, and the stack length, must be the same before and after a search
/// interrupted at node N. Returns true if the deadline fell inside the search.
pub fn history_point(rep: &Report, mg: &MoveGenerator, name: &str, fen: &str, b: &Board, d: u8, n: u64) -> bool {
    if rep.violation_count.load(Ordering::Relaxed) >= 5 {
        return false;
    }
    crate::timer::verif::set_node_clock(Some(1));
    let succ: Vec<Board> = mg.generate_moves(b).iter().take(4).map(|m| b.clone_with_move(m)).collect();
    if succ.len() < 2 {
        return false;
    }
    let args = vec!["c06-history".to_string(), "--fen".into(), fen.to_string(), "--depth".into(), d.to_string(), "--at".into(), n.to_string()];
    let _job = crate::watch::enter(format!("C06 fen={} depth={} no-answer", fen, d), format!("{} ({:?}) depth {}: deadline at node {} but no answer after {} s", name, fen, d, n, crate::watch::LIMIT_S), args.clone());
    let r = guard(|| {
        let mut s = Searcher::new();
        s.push_position(&succ[0]);
        s.push_position(&succ[1]);
        s.push_position(&succ[0]);
        let probe = |s: &Searcher| -> (usize, Vec<bool>) {
            let mut v = vec![s.verif_is_draw_by_repetition(b)];
            for x in &succ {
                v.push(s.verif_is_draw_by_repetition(x));
            }
            (s.verif_repetition_len(), v)
        };
        let before = probe(&s);
        s.find_best_move(b, d, Some(Duration::from_millis(n)));
        let hit = crate::timer::verif::first_stop().is_some();
        let after = probe(&s);
        (before, after, hit)
    });
    match r {
        Err(e) => {
            rep.violation(format!("C06 fen={} depth={} at={} history panic", fen, d, n), format!("{} ({:?}) depth {} interrupted at node {} with a game history: {}", name, fen, d, n, e), args, J::Null);
            false
        }
        Ok((before, after, hit)) => {
            if before != after {
                rep.violation(
                    format!("C06 fen={} depth={} history-content", fen, d),
                    format!(
                        "{} ({:?}) depth {}: with the game history [s1, s2, s1] recorded, the search interrupted at node {} changed the history: stack length {} -> {}, repetition answers for (root, s1..s4) {:?} -> {:?}",
                        name, fen, d, n, before.0, after.0, before.1, after.1
                    ),
                    args,
                    J::Null,
                );
            }
            hit
        }
    }
}


// ---------------------------------------------------------------------------------------------
// C07, a searcher that has thought for a long time. Everything above starts from a fresh
// Searcher; what earlier searches of the same game left behind (a table of millions of entries,
// filled killer and history tables) must not make a short search late: housekeeping whose cost
// grows with that state (trimming, ageing, rebuilding the table) and that never looks at the
// clock is work after the deadline just the same.

/// Middlegames on which long thinks fill the table quickly
pub const BIG_STATE_POSITIONS: &[(&str, &str)] = &[
    ("italian middlegame", "r1bq1rk1/ppp2ppp/2np1n2/2b1p3/2B1P3/2PP1N2/PP3PPP/RNBQ1RK1 w - - 0 7"),
    ("kiwipete", "r3k2r/p1ppqpb1/bn2pnp1/3PN3/1p2P3/2N2Q1p/PPPBBPPP/R3K2R w KQkq - 0 1"),
    ("open sicilian", "r1bqkb1r/pp2pppp/2np1n2/8/3NP3/2N5/PPP2PPP/R1BQKB1R w KQkq - 2 6"),
    ("start position", "rnbqkbnr/pppppppp/8/8/8/8/PPPPPPPP/RNBQKBNR w KQkq - 0 1"),
    ("queen's gambit structure", "r2q1rk1/pp2bppp/2n1pn2/2pp4/3P1B2/2P1PN2/PP1N1PPP/R2QKB1R w KQ - 0 8"),
    ("rook endgame", "8/5pk1/6p1/R7/5P2/6P1/r4K2/8 w - - 0 40"),
    ("king's indian structure", "r1bq1rk1/pp2ppbp/2np1np1/8/2BNP3/2N1BP2/PPPQ2PP/R3K2R b KQ - 0 9"),
    ("two knights endgame with pawns", "8/pp3k2/2n2p2/3p4/3P1N2/4PK2/PP6/8 w - - 0 30"),
];

/// Capacity of a std HashMap that has grown by single insertions to hold `len` entries: 7/8 of
/// the bucket count (a power of two). A short search whose stores could push the map over it
/// pays for one rehash of the whole table, which the unchanged engine does too (amortised
/// growth); such a case is counted and not judged.
fn growth_capacity(len: u64) -> u64 {
    let mut buckets: u64 = 8;
    loop {
        let cap = buckets / 8 * 7;
        if cap >= len {
            return cap;
        }
        buckets *= 2;
    }
}

/// One long-thinking searcher: fill stages (cumulative node budgets) and after each stage short
/// searches of the same position and of a position two plies on, each bounded in nodes after the
/// deadline and in CPU time per visited node. Returns (cases judged, cases not judged because a
/// table growth step could fall into them, table entries after the last stage, costliest short
/// search in us).
pub fn big_state_point(rep: &Report, name: &str, fen: &str, stages: &[u64], only: Option<(usize, usize, u64)>) -> (u64, u64, u64, u64) {
    crate::timer::verif::set_node_clock(Some(1));
    let b = board(fen);
    let mg = crate::eng::tl_mg();
    // the position two plies on (first move, first reply): the next position of the same game
    let next = {
        let m = mg.generate_moves(&b);
        match m.first() {
            Some(m1) => {
                let c = b.clone_with_move(m1);
                match mg.generate_moves(&c).first() {
                    Some(m2) => c.clone_with_move(m2),
                    None => b,
                }
            }
            None => b,
        }
    };
    let budgets: [u64; 6] = [0, 1, 10, 100, 1000, 5000];
    let stage_text = stages.iter().map(|n| n.to_string()).collect::<Vec<_>>().join(",");
    let mut judged = 0u64;
    let mut skipped = 0u64;
    let mut entries_last = 0u64;
    let mut worst = 0u64;
    let mut s = match guard(Searcher::new) {
        Ok(s) => s,
        Err(_) => return (0, 0, 0, 0),
    };
    for (si, fill) in stages.iter().enumerate() {
        if rep.violation_count.load(Ordering::Relaxed) >= 5 {
            break;
        }
        let args0 = vec!["c07-big".to_string(), "--fen".into(), fen.to_string(), "--stages".into(), stage_text.clone(), "--stage".into(), si.to_string(), "--which".into(), "0".into(), "--budget".into(), "0".into()];
        let _job = crate::watch::enter(format!("C07 big-state fen={} no-answer", fen), format!("{} ({:?}): a search with a budget of {} nodes did not answer after {} s of CPU time", name, fen, fill, crate::watch::LIMIT_S), args0.clone());
        if guard(|| s.find_best_move(&b, 64, Some(Duration::from_millis(*fill)))).is_err() {
            rep.violation(format!("C07 big-state fen={} fill panic", fen), format!("{} ({:?}): the long search (budget {} nodes) panicked", name, fen, fill), args0, J::Null);
            return (judged, skipped, entries_last, worst);
        }
        drop(_job);
        for (wi, target) in [&b, &next].into_iter().enumerate() {
            for n in budgets {
                if let Some((osi, owi, on)) = only {
                    if osi != si || owi != wi || on != n {
                        // the replay still runs every earlier short search (they are part of the history)
                        if si > osi || (si == osi && (wi, n) > (owi, on)) {
                            continue;
                        }
                    }
                }
                let args = vec!["c07-big".to_string(), "--fen".into(), fen.to_string(), "--stages".into(), stage_text.clone(), "--stage".into(), si.to_string(), "--which".into(), wi.to_string(), "--budget".into(), n.to_string()];
                crate::crumb::set_owned(&args);
                let _job = crate::watch::enter(format!("C07 big-state fen={} no-answer", fen), format!("{} ({:?}) after long thinks of {} nodes: a search with a budget of {} nodes did not answer after {} s of CPU time", name, fen, stage_text, n, crate::watch::LIMIT_S), args.clone());
                let len_before = s.verif_tt_entries().len() as u64;
                let c0 = crate::cputime::thread_cpu();
                let r = guard(|| {
                    s.find_best_move(target, 64, Some(Duration::from_millis(n)));
                    s.verif_nodes()
                });
                let cpu_us = crate::cputime::thread_cpu().saturating_sub(c0).as_micros() as u64;
                let visited = match r {
                    Ok(v) => v,
                    Err(e) => {
                        rep.violation(format!("C07 big-state fen={} panic", fen), format!("{} ({:?}) after long thinks: budget {}: {}", name, fen, n, e), args, J::Null);
                        return (judged, skipped, entries_last, worst);
                    }
                };
                let overrun = visited.saturating_sub(n.max(1));
                if overrun > OVERRUN_LIMIT {
                    rep.violation(
                        format!("C07 big-state fen={} stage={} which={} budget={} overrun", fen, si, wi, n),
                        format!("{} ({:?}), searcher that has thought for {} nodes (table of {} entries): a search of {} with its deadline at node {} visited {} further nodes before answering (limit {})", name, fen, stage_text, len_before, if wi == 0 { "the same position" } else { "the position two plies on" }, n, overrun, OVERRUN_LIMIT),
                        args.clone(),
                        J::Null,
                    );
                }
                let could_grow = len_before + visited + 1 > growth_capacity(len_before.max(1));
                if could_grow {
                    skipped += 1;
                } else {
                    judged += 1;
                    worst = worst.max(cpu_us);
                    let mut too_costly = cpu_us > WORK_PER_NODE_US * visited.max(1) + WORK_BASE_MS * 1000;
                    if too_costly && only.is_none() {
                        // measured again from the start (a fresh searcher, the same thinks, the same
                        // short searches up to this one), twice: a loaded or virtualised host can
                        // inflate one CPU measurement, work that is really there costs its time in every run
                        for _ in 0..2 {
                            let tmp = Report::new("C07", "quick", 0);
                            big_state_point(&tmp, name, fen, &stages[..=si], Some((si, wi, n)));
                            let again = tmp.violations.lock().unwrap().iter().any(|v| v.sig.ends_with(" work"));
                            if !again {
                                too_costly = false;
                                break;
                            }
                        }
                        crate::timer::verif::set_node_clock(Some(1));
                    }
                    if too_costly {
                        rep.violation(
                            format!("C07 big-state fen={} stage={} which={} budget={} work", fen, si, wi, n),
                            format!(
                                "{} ({:?}), searcher that has thought for {} nodes (table of {} entries): a search of {} with its deadline at node {} visited {} nodes and consumed more CPU time than {} us per visited node + {} ms (measured three times from the start): work that grows with what earlier searches left behind is done without looking at the clock; a fresh searcher answers the same go in microseconds",
                                name, fen, stage_text, len_before, if wi == 0 { "the same position" } else { "the position two plies on" }, n, visited, WORK_PER_NODE_US, WORK_BASE_MS
                            ),
                            args.clone(),
                            J::obj().set("cpu_us", cpu_us).set("nodes_visited", visited).set("table_entries", len_before),
                        );
                    }
                }
            }
        }
        entries_last = s.verif_tt_entries().len() as u64;
    }
    (judged, skipped, entries_last, worst)
}

pub fn replay_big(fen: &str, stages: &str, stage: usize, which: usize, budget: u64) -> i32 {
    let rep = Report::new("C07", "quick", 0);
    let st: Vec<u64> = stages.split(',').filter_map(|x| x.parse().ok()).collect();
    big_state_point(&rep, "replay", fen, &st, Some((stage, which, budget)));
    // only the case asked for (the short searches before it are part of its history and are run
    // again, but a borderline measurement among them is not this replay's business)
    let want = format!("stage={} which={} budget={} ", stage, which, budget);
    let all = rep.violations.lock().unwrap();
    let v: Vec<_> = all.iter().filter(|x| x.sig.contains(&want) || x.sig.contains("panic")).collect();
    for x in v.iter() {
        println!("REPLAY-VIOLATION {} :: {}", x.sig, x.text);
    }
    if v.is_empty() {
        println!("REPLAY-OK C07 big-state {}", fen);
        0
    } else {
        1
    }
}

// ---------------------------------------------------------------------------------------------
// C07, command level: `go` histories through the real command handler. The sweeps above call
// find_best_move directly; a deadline can also be lost between the command parser and the
// search (a token that switches the clock off, a limit kept from an earlier `go`). Every `go`
// that carries a time budget must finish within budget + OVERRUN_LIMIT nodes of the node clock,
// whatever else the command says and whatever an earlier command of the session said.

/// Positions on which an unbudgeted shallow search terminates quickly
pub const GO_NORMAL_POSITIONS: &[(&str, &str)] = &[
    ("start position", "position startpos"),
    ("K+P v k", "position fen 8/8/4k3/8/8/4K3/4P3/8 w - - 0 1"),
    ("blocked pawn chains (fortress)", "position fen 8/8/4k3/p2p2p1/P2P2P1/4K3/8/8 w - - 0 1"),
    ("italian middlegame after two moves", "position fen r1bq1rk1/ppp2ppp/2np1n2/2b1p3/2B1P3/2PP1N2/PP3PPP/RNBQ1RK1 w - - 0 7 moves b1d2 a7a6"),
    ("single legal reply", "position fen 7k/8/8/8/8/8/6PP/r5K1 w - - 0 1"),
];

/// First command of a history (sets whatever state a `go` can leave behind); each terminates on
/// the normal positions. Tokens are the standard ones of the UCI `go` command; `infinite` and
/// `ponder` are left out because an engine that implements them must not answer before `stop` /
/// `ponderhit`, which this harness does not send.
pub const GO_SETTERS: &[&str] = &[
    "go depth 2",
    "go depth 3 nodes 500000",
    "go nodes 100 depth 3",
    "go depth 2 mate 3",
    "go depth 2 movestogo 20",
];

/// (command, budget in ms if it is a movetime; None = read the budget the engine derived from the clocks)
pub const GO_BUDGETED: &[(&str, Option<u64>)] = &[
    ("go movetime 0", Some(0)),
    ("go movetime 30", Some(30)),
    ("go movetime 400", Some(400)),
    ("go movetime 3000", Some(3000)),
    ("go movetime 50 nodes 1000000", Some(50)),
    ("go nodes 1000000 movetime 50", Some(50)),
    ("go depth 40 movetime 60", Some(60)),
    ("go mate 5 movetime 45", Some(45)),
    ("go movestogo 10 movetime 35", Some(35)),
    ("go wtime 6000 btime 6000 winc 0 binc 0", None),
    ("go wtime 30000 btime 30000 winc 500 binc 500 movestogo 20", None),
];

/// The same limits in the other order, and clocks combined with each of the other limiting tokens
/// before and after them: whichever token comes last must not switch the clock off. Single
/// commands on a fresh engine (every position).
pub const GO_BUDGETED_ORDERS: &[(&str, Option<u64>)] = &[
    ("go movetime 60 depth 40", Some(60)),
    ("go movetime 45 mate 5", Some(45)),
    ("go movetime 35 movestogo 10", Some(35)),
    ("go movetime 25 depth 64", Some(25)),
    ("go depth 64 movetime 25", Some(25)),
    ("go wtime 6000 btime 6000 winc 0 binc 0 depth 40", None),
    ("go depth 40 wtime 6000 btime 6000 winc 0 binc 0", None),
    ("go wtime 6000 btime 6000 winc 0 binc 0 nodes 1000000", None),
    ("go nodes 1000000 wtime 6000 btime 6000 winc 0 binc 0", None),
    ("go wtime 6000 btime 6000 winc 0 binc 0 mate 5", None),
    ("go mate 5 wtime 6000 btime 6000 winc 0 binc 0", None),
    ("go movestogo 10 wtime 30000 btime 30000 winc 500 binc 500", None),
    ("go wtime 9000 btime 9000 winc 100 binc 100 depth 30 nodes 1000000", None),
];

/// Only where a search of that size is cheap (not on the explosion positions' cap)
pub const GO_LONG_BUDGET: (&str, Option<u64>) = ("go movetime 20000", Some(20000));

fn explosion_command(fen: &str) -> String {
    format!("position fen {}", fen)
}

/// Runs one history on a fresh engine; every budgeted `go` in it is judged. Returns
/// (budgeted gos judged, of which the deadline fell inside the search, max overrun).
pub fn go_history(rep: &Report, cmds: &[(String, Option<Option<u64>>)]) -> (u64, u64, u64) {
    if rep.violation_count.load(Ordering::Relaxed) >= 5 {
        return (0, 0, 0);
    }
    crate::timer::verif::set_node_clock(Some(1));
    let text = cmds.iter().map(|c| c.0.clone()).collect::<Vec<_>>().join(" | ");
    let args = vec!["c07-go".to_string(), "--cmds".into(), cmds.iter().map(|c| c.0.clone()).collect::<Vec<_>>().join("|")];
    let _job = crate::watch::enter(format!("C07 go-history [{}] no-answer", text), format!("[{}]: a go command did not answer within {} s of CPU time", text, crate::watch::LIMIT_S), args.clone());
    let r = guard(|| {
        let mut fl = crate::uci::Flounder::new();
        let mut judged = Vec::new();
        for (c, budget) in cmds {
            crate::search::verif::set_dry_run(false);
            fl.verif_handle_command(c);
            if let Some(b) = budget {
                let limit = match b {
                    Some(ms) => Some(*ms),
                    None => crate::search::verif::last_go().and_then(|(_, t)| t).map(|d| d.as_millis() as u64),
                };
                judged.push((c.clone(), limit, fl.verif_searcher().verif_nodes()));
            }
        }
        judged
    });
    match r {
        Err(e) => {
            rep.violation(format!("C07 go-history [{}] panic", text), format!("[{}]: {}", text, e), args, J::Null);
            (0, 0, 0)
        }
        Ok(judged) => {
            let mut hits = 0;
            let mut worst = 0;
            for (c, limit, nodes) in &judged {
                match limit {
                    None => {
                        rep.violation(format!("C07 go-history [{}] no-budget", text), format!("[{}]: {:?} carries a clock but the search was started without a time limit", text, c), args.clone(), J::Null);
                    }
                    Some(l) => {
                        let over = nodes.saturating_sub((*l).max(1));
                        if *nodes >= *l {
                            hits += 1;
                        }
                        worst = worst.max(over);
                        if over > OVERRUN_LIMIT {
                            rep.violation(
                                format!("C07 go-history [{}] overrun", text),
                                format!("[{}]: {:?} has a budget of {} ms = {} nodes of the node clock, but the search visited {} nodes before answering ({} beyond the deadline, limit {})", text, c, l, l, nodes, over, OVERRUN_LIMIT),
                                args.clone(),
                                J::Null,
                            );
                        }
                    }
                }
            }
            (judged.len() as u64, hits, worst)
        }
    }
}

fn go_histories(rep: &Report, thorough: bool) -> (J, u64, u64) {
    let mut all_positions: Vec<(String, String, bool)> = GO_NORMAL_POSITIONS.iter().map(|(n, c)| (n.to_string(), c.to_string(), false)).collect();
    for (n, f) in EXPLOSION_POSITIONS {
        all_positions.push((n.to_string(), explosion_command(f), true));
    }
    let mut hs: Vec<Vec<(String, Option<Option<u64>>)>> = Vec::new();
    // single budgeted go on a fresh engine
    for (_, pc, explosive) in &all_positions {
        for (g, b) in GO_BUDGETED.iter().chain(if *explosive { [].iter() } else { std::slice::from_ref(&GO_LONG_BUDGET).iter() }) {
            hs.push(vec![(pc.clone(), None), (g.to_string(), Some(*b))]);
        }
    }
    for (_, pc, _) in &all_positions {
        for (g, b) in GO_BUDGETED_ORDERS {
            hs.push(vec![(pc.clone(), None), (g.to_string(), Some(*b))]);
        }
    }
    let singles = hs.len();
    // two commands: any first go on a normal position, then a budgeted go on any position,
    // with and without ucinewgame in between
    for (_, pa) in GO_NORMAL_POSITIONS {
        let firsts: Vec<(String, Option<Option<u64>>)> = GO_SETTERS.iter().map(|g| (g.to_string(), None)).chain(GO_BUDGETED.iter().map(|(g, b)| (g.to_string(), Some(*b)))).collect();
        for first in &firsts {
            for (_, pb, _) in &all_positions {
                for (g, b) in GO_BUDGETED {
                    for newgame in [false, true] {
                        if newgame && !thorough && !first.0.contains("nodes") {
                            continue;
                        }
                        let mut h = vec![(pa.to_string(), None), first.clone()];
                        if newgame {
                            h.push(("ucinewgame".to_string(), None));
                        }
                        h.push((pb.clone(), None));
                        h.push((g.to_string(), Some(*b)));
                        hs.push(h);
                    }
                }
            }
        }
    }
    // a long think after a search that saw the world very differently: the first search ends with
    // a score far above or below what the second will find (a queen up, a queen down, a forced
    // mate), the second has a budget in which several iterations complete (depth 4-6): whatever the
    // engine remembers of the first (an expected score, a best move that is no longer there) must
    // not stretch the second beyond its budget
    let contrast_first: [(&str, &str); 5] = [
        ("white a queen up", "position fen rnb1kbnr/pppp1ppp/8/4p3/4P3/8/PPPP1PPP/RNBQKBNR w KQkq - 0 3"),
        ("white a queen down", "position fen rnbqkbnr/pppp1ppp/8/4p3/4P3/8/PPPP1PPP/RNB1KBNR w KQkq - 0 3"),
        ("white mates in two", "position fen 6k1/5ppp/8/8/8/8/5PPP/1R1R2K1 w - - 0 1"),
        ("black a rook up", "position fen rnbqkbnr/pppppppp/8/8/8/8/PPPPPPPP/1NBQKBNR b Kkq - 0 1"),
        ("start position", "position startpos"),
    ];
    let contrast_second: [&str; 3] = ["position startpos moves e2e4 e7e5", "position fen r1bq1rk1/ppp2ppp/2np1n2/2b1p3/2B1P3/2PP1N2/PP3PPP/RNBQ1RK1 w - - 0 7", "position fen 8/5pk1/6p1/R7/5P2/6P1/r4K2/8 w - - 0 40"];
    let contrast_go: [(&str, Option<u64>); 3] = [("go movetime 8000", Some(8000)), ("go movetime 20000", Some(20000)), ("go wtime 300000 btime 300000 winc 0 binc 0", None)];
    let before_contrast = hs.len();
    for (_, pa) in contrast_first {
        for first in ["go depth 4", "go depth 5", "go movetime 3000"] {
            for pb in contrast_second {
                for (g, b) in contrast_go {
                    hs.push(vec![(pa.to_string(), None), (first.to_string(), None), (pb.to_string(), None), (g.to_string(), Some(b))]);
                }
            }
        }
    }
    let contrast = hs.len() - before_contrast;
    let results: Vec<(u64, u64, u64)> = par_map(&hs, |h| go_history(rep, h));
    let judged: u64 = results.iter().map(|r| r.0).sum();
    let hits: u64 = results.iter().map(|r| r.1).sum();
    let worst: u64 = results.iter().map(|r| r.2).max().unwrap_or(0);
    eprintln!("[C07] go histories: {} ({} single), {} budgeted gos judged, deadline inside the search in {}, max overrun {} ({:.1}s)", hs.len(), singles, judged, hits, worst, rep.elapsed());
    let part = J::obj()
        .set("histories", hs.len())
        .set("single_command_histories", singles)
        .set("long_think_after_a_search_with_a_very_different_score", contrast)
        .set("budgeted_go_commands_judged", judged)
        .set("deadline_fell_inside_search", hits)
        .set("max_nodes_after_deadline", worst)
        .set("positions", all_positions.iter().map(|p| p.1.clone()).collect::<Vec<_>>())
        .set("first_commands", GO_SETTERS.iter().map(|g| g.to_string()).chain(GO_BUDGETED.iter().map(|g| g.0.to_string())).collect::<Vec<_>>())
        .set("judged_commands", GO_BUDGETED.iter().map(|g| g.0.to_string()).chain(std::iter::once(GO_LONG_BUDGET.0.to_string())).chain(GO_BUDGETED_ORDERS.iter().map(|g| format!("{} (single command)", g.0))).collect::<Vec<_>>())
        .set("rule", "history = position A; go a; [ucinewgame]; position B; go b on a fresh engine through the real command handler under the node clock (1 node = 1 ms); A over the normal positions, a over all first commands, B over all positions incl. the quiescence-explosion ones, b over the budgeted commands; every budgeted go must end within budget + limit nodes (budget = the movetime given, or the limit the engine itself derived from the clocks)");
    (part, judged, hits)
}

pub fn replay_go(cmds: &str) -> i32 {
    let rep = Report::new("C07", "quick", 0);
    crate::watch::start_replay();
    let all: Vec<(&str, Option<u64>)> = GO_BUDGETED.iter().cloned().chain(std::iter::once(GO_LONG_BUDGET)).collect();
    let h: Vec<(String, Option<Option<u64>>)> = cmds
        .split('|')
        .map(|c| {
            let c = c.trim().to_string();
            let b = all.iter().find(|g| g.0 == c).map(|g| g.1);
            (c, b)
        })
        .collect();
    let r = go_history(&rep, &h);
    let v = rep.violations.lock().unwrap();
    for x in v.iter() {
        println!("REPLAY-VIOLATION {} :: {}", x.sig, x.text);
    }
    if v.is_empty() {
        println!("REPLAY-OK C07 go history: {} budgeted gos, max overrun {}", r.0, r.2);
        0
    } else {
        1
    }
}


// ---------------------------------------------------------------------------------------------
// C07, real clock. Everything above runs on the node clock, which answers should_stop() before
// the code that reads the real clock is reached; a defect in that code (a poll schedule, a
// carried-over allowance) is invisible there. This part talks to the hooks-off binary in real
// time: after an earlier command (none, a fixed-depth search, a timed search that expired, a
// timed search of a forced move) a budgeted go must be answered within budget + REAL_ALLOWANCE.
// The allowance is deliberately coarse (scheduling noise on a busy machine must never be a
// verdict): only overruns of seconds are reported.

pub const REAL_ALLOWANCE_MS: u64 = 2500;
/// beyond budget + allowance of wall time the engine is waited for this much longer before "no answer"
pub const REAL_WALL_SLACK_MS: u64 = 60_000;

pub const REAL_PRIORS: &[(&str, &[&str])] = &[
    ("nothing before", &[]),
    ("a fixed-depth search of the start position", &["position startpos", "go depth 6"]),
    ("a fixed-depth search of a middlegame", &["position fen r1bq1rk1/ppp2ppp/2np1n2/2b1p3/2B1P3/2PP1N2/PP3PPP/RNBQ1RK1 w - - 0 7", "go depth 5"]),
    ("a timed search that ran out of time", &["position startpos", "go movetime 300"]),
    ("a timed search of a forced move", &["position fen 7k/8/8/8/8/8/6PP/r5K1 w - - 0 1", "go movetime 4000"]),
    // whatever watches the first deadline (a thread, an alarm) must not be the one the second search listens to
    ("a search that ended long before its time budget", &["position startpos", "go depth 1 movetime 8000"]),
    ("two searches that ended long before their budgets", &["position startpos", "go depth 2 movetime 20000", "position startpos moves e2e4", "go depth 1 wtime 600000 btime 600000 winc 0 binc 0"]),
];

pub const REAL_TARGETS: &[&str] = &[
    "position startpos moves e2e4 e7e5",
    "position fen 8/8/4k3/8/8/4K3/4P3/8 w - - 0 1",
    "position fen 6k1/PPPPP3/8/8/8/8/ppppp3/6K1 w - - 0 1",
    "position fen 7k/8/8/8/8/8/6PP/r5K1 w - - 0 1 moves g1f2 a1a2",
];

/// (command, budget ms)
pub const REAL_GOS: &[(&str, u64)] = &[("go movetime 150", 150), ("go wtime 8000 btime 8000 winc 0 binc 0", 120)];

/// Runs one real-clock history; returns the latency of the budgeted go in ms (None = no answer).
pub fn real_history(rep: &Report, exe: &str, prior: &[&str], target: &str, go: &str, budget: u64) -> Option<u64> {
    use crate::blackbox::Session;
    use std::time::Duration;
    let mut steps: Vec<String> = prior.iter().map(|s| s.to_string()).collect();
    steps.push(target.to_string());
    steps.push(go.to_string());
    let text = steps.join(" | ");
    let args = vec!["c07-real".to_string(), "--prior".into(), prior.join("|"), "--target".into(), target.to_string(), "--go".into(), go.to_string(), "--budget".into(), budget.to_string()];
    let mut s = match Session::start(exe) {
        Ok(s) => s,
        Err(e) => {
            eprintln!("MACHINERY ERROR: {}", e);
            std::process::exit(2);
        }
    };
    for c in prior {
        s.send(c);
    }
    s.send(target);
    s.send("isready");
    if s.wait_for("readyok", Duration::from_secs(180)).is_none() {
        rep.violation(format!("C07 real-clock [{}] prior-no-answer", text), format!("[{}]: the commands before the timed go were not finished after 180 s of real time", text), args, J::Null);
        return None;
    }
    let cpu0 = crate::cputime::process_cpu(s.pid()).map(|(c, _)| c);
    let t0 = std::time::Instant::now();
    s.send(go);
    // The verdict is on the CPU time the engine itself consumed between the go and its bestmove
    // (an engine that stops at its deadline cannot have computed for longer than its budget, however
    // busy the machine is); wall time decides only at a distance no scheduler delay explains.
    let horizon = Duration::from_millis(budget + REAL_ALLOWANCE_MS + REAL_WALL_SLACK_MS);
    match s.wait_for("bestmove", horizon) {
        Some((_, t)) => {
            let ms = t.duration_since(t0).as_millis() as u64;
            let cpu_ms = match (cpu0, crate::cputime::process_cpu(s.pid()).map(|(c, _)| c)) {
                (Some(a), Some(b)) => b.saturating_sub(a).as_millis() as u64,
                _ => ms,
            };
            if cpu_ms > budget + REAL_ALLOWANCE_MS {
                rep.violation(
                    format!("C07 real-clock [{}] late", text),
                    format!("[{}]: {:?} has a budget of {} ms but the engine computed for longer than budget + {} ms before answering", text, go, budget, REAL_ALLOWANCE_MS),
                    args,
                    J::obj().set("cpu_ms", cpu_ms).set("wall_ms", ms),
                );
            }
            Some(cpu_ms.min(ms))
        }
        None => {
            rep.violation(
                format!("C07 real-clock [{}] late", text),
                format!("[{}]: {:?} has a budget of {} ms but was not answered within {} ms of real time", text, go, budget, horizon.as_millis()),
                args,
                J::Null,
            );
            None
        }
    }
}

fn real_clock_part(rep: &Report, exe: &str) -> (J, u64) {
    let mut jobs: Vec<(usize, usize, usize)> = Vec::new();
    for p in 0..REAL_PRIORS.len() {
        for t in 0..REAL_TARGETS.len() {
            for g in 0..REAL_GOS.len() {
                jobs.push((p, t, g));
            }
        }
    }
    // half the cores: the engines under test need real CPU time of their own
    let res: Vec<Option<u64>> = {
        let old = std::env::var("VERIF_THREADS").ok();
        std::env::set_var("VERIF_THREADS", (crate::par::threads() / 2).max(1).to_string());
        let r = par_map(&jobs, |&(p, t, g)| {
            if rep.saturated() {
                return None;
            }
            real_history(rep, exe, REAL_PRIORS[p].1, REAL_TARGETS[t], REAL_GOS[g].0, REAL_GOS[g].1)
        });
        match old {
            Some(v) => std::env::set_var("VERIF_THREADS", v),
            None => std::env::remove_var("VERIF_THREADS"),
        }
        r
    };
    let answered = res.iter().filter(|r| r.is_some()).count();
    let worst = res.iter().filter_map(|r| *r).max().unwrap_or(0);
    eprintln!("[C07] real clock: {} histories, {} answered, slowest answer {} ms ({:.1}s)", jobs.len(), answered, worst, rep.elapsed());
    (
        J::obj()
            .set("binary", "hooks off (release)")
            .set("histories", jobs.len())
            .set("answered", answered)
            .set("slowest_answer_ms", worst)
            .set("allowance_ms", REAL_ALLOWANCE_MS)
            .set("earlier_commands", REAL_PRIORS.iter().map(|p| p.0.to_string()).collect::<Vec<_>>())
            .set("positions", REAL_TARGETS.iter().map(|p| p.to_string()).collect::<Vec<_>>())
            .set("timed_commands", REAL_GOS.iter().map(|g| g.0.to_string()).collect::<Vec<_>>())
            .set("rule", "history = earlier commands; position; isready (wait for readyok); budgeted go, timed from sending it to its bestmove line in real time; late = the engine consumed more CPU time than budget + allowance between the go and its bestmove (or did not answer within a further minute of real time). Coarse on purpose: the node-clock parts decide punctuality to the node, this part only that the code reading the real clock is not broken by seconds"),
        jobs.len() as u64,
    )
}

pub fn replay_real(exe: &str, prior: &str, target: &str, go: &str, budget: u64) -> i32 {
    let rep = Report::new("C07", "quick", 0);
    let pv: Vec<&str> = if prior.is_empty() { vec![] } else { prior.split('|').collect() };
    let ms = real_history(&rep, exe, &pv, target, go, budget);
    let v = rep.violations.lock().unwrap();
    for x in v.iter() {
        // the measured time differs from run to run; the verdict line must not
        println!("REPLAY-VIOLATION {} :: late", x.sig);
    }
    if v.is_empty() {
        println!("REPLAY-OK C07 real clock (answered: {})", ms.is_some());
        0
    } else {
        1
    }
}

pub fn run(which: &'static str, tier: &str, seed: u64, out: &str, engine_plain: Option<&str>) {
    let rep = Report::new(which, tier, seed);
    let thorough = tier == "thorough";
    let mg = MoveGenerator::new();
    let cache = RefCache::new(200_000);
    let t_cap: u64 = if thorough { 40_000 } else { 6_000 };
    let done = std::sync::Arc::new(AtomicU64::new(0));
    {
        // a search that never answers must become a verdict, not a hang
        let done = done.clone();
        let out = out.to_string();
        let tier = tier.to_string();
        crate::watch::start(move |sig, text, args| {
            let r = Report::new(which, &tier, seed);
            r.violation(sig, text, args, J::Null);
            let n = done.load(Ordering::Relaxed).max(2);
            r.cap("stopped by the watchdog: one crash point did not answer".into());
            r.finish(
                "fault_enumeration",
                J::obj()
                    .set("evaluations", n)
                    .set("distinct_nontrivial", n)
                    .set("rule", "run cut short by the watchdog; counts are the crash points completed before it fired")
                    .set("samples", vec!["(see violation)"]),
                vec![],
                &out,
            );
            std::process::exit(0);
        });
    }
    std::thread::scope(|big_scope| {
    // the long-thinking searchers run beside the sweeps (eight threads that think for seconds each)
    let big_stages: Vec<u64> = if thorough { vec![300_000, 1_500_000, 6_000_000, 24_000_000] } else { vec![1_000_000, 4_000_000, 12_000_000] };
    let big_handle = if which == "C07" {
        let rep = &rep;
        let stages = big_stages.clone();
        Some(big_scope.spawn(move || par_map(&BIG_STATE_POSITIONS.to_vec(), |(name, fen)| big_state_point(rep, name, fen, &stages, None))))
    } else {
        None
    };
    let mut per = Vec::new();
    let mut evaluations = 0u64;
    let mut nontrivial = 0u64;
    let mut max_overrun = 0u64;
    let mut samples = Vec::new();
    // only a guard against pathological slowness: coverage must not depend on how busy the machine is
    let wall_cap = if thorough { 6000.0 } else { 900.0 };
    'outer: for (name, fen) in SWEEP_POSITIONS {
        let b = board(fen);
        // depth 1 too: an interruption inside the very first iteration, then a depth-1 search
        for d in [1u8, 2, 3, 4, 5] {
            if rep.saturated() {
                break 'outer;
            }
            // depth 4 and 5: the small searches only (the quick tier keeps them under 2500 nodes)
            let t_cap = if d >= 4 && !thorough { 2_500 } else { t_cap };
            if rep.elapsed() > wall_cap {
                rep.cap(format!("wall cap {} s reached before {:?} depth {}", wall_cap, name, d));
                break 'outer;
            }
            let t = match total_nodes(&b, d, t_cap) {
                Some(t) => t,
                None => {
                    per.push(J::obj().set("position", *name).set("depth", d).set("skipped", format!("uninterrupted search exceeds {} nodes", t_cap)));
                    continue;
                }
            };
            if which == "C06" && cache.v(crate::eng::tl_mg(), &b, d).is_none() {
                per.push(J::obj().set("position", *name).set("depth", d).set("skipped", "reference value unavailable (quiescence cap)"));
                continue;
            }
            // every deadline 0..T (T itself and beyond = no interruption)
            let points: Vec<u64> = (0..=t).collect();
            let results: Vec<SweepResult> = par_map(&points, |n| one_point(which, &cache, crate::eng::tl_mg(), &rep, name, fen, &b, d, &[*n], which == "C06"));
            let hits = results.iter().filter(|r| r.deadline_hit).count() as u64;
            let mo = results.iter().map(|r| r.overrun).max().unwrap_or(0);
            max_overrun = max_overrun.max(mo);
            evaluations += points.len() as u64;
            done.store(evaluations, Ordering::Relaxed);
            nontrivial += hits;
            let mut pairs_done = 0u64;
            // two interruptions before the completed search (C06), for the small searches
            if which == "C06" && (t <= 150 || (thorough && t <= 1500)) {
                // every pair for the smallest searches; a grid of ~120 x 120 deadlines (thorough) / 25 x 25 (quick) otherwise
                let step = if thorough { (t / 120).max(1) } else { (t / 25).max(1) };
                let mut pairs: Vec<(u64, u64)> = Vec::new();
                let mut n1 = 0;
                while n1 < t {
                    let mut n2 = 0;
                    while n2 < t {
                        pairs.push((n1, n2));
                        n2 += step;
                    }
                    n1 += step;
                }
                let pr: Vec<SweepResult> = par_map(&pairs, |(a, c)| one_point(which, &cache, crate::eng::tl_mg(), &rep, name, fen, &b, d, &[*a, *c], true));
                pairs_done = pr.len() as u64;
                evaluations += pairs_done;
                nontrivial += pr.iter().filter(|r| r.deadline_hit).count() as u64;
            }
            // the engine's real timing path: a zero budget needs no node clock to be deterministic
            if which == "C06" && d <= 3 {
                for first in [d, 64u8] {
                    if real_zero_point(&cache, crate::eng::tl_mg(), &rep, name, fen, &b, d, first) {
                        evaluations += 1;
                        nontrivial += 1;
                        REAL_ZERO.fetch_add(1, Ordering::Relaxed);
                    }
                }
            }
            // the same crash points delivered through the go command (three ways of stating the budget)
            let mut command_done = 0u64;
            if which == "C06" && d <= 3 && (t <= 700 || thorough) {
                let mut cps: Vec<(&str, u64)> = Vec::new();
                for mode in COMMAND_MODES {
                    for n in 0..t {
                        cps.push((mode, n));
                    }
                }
                let cr: Vec<bool> = par_map(&cps, |(mode, n)| command_point(&cache, crate::eng::tl_mg(), &rep, name, fen, &b, d, mode, *n));
                command_done = cr.iter().filter(|x| **x).count() as u64;
                evaluations += command_done;
                nontrivial += command_done;
            }
            let mut deeper_done = 0u64;
            let mut history_done = 0u64;
            if which == "C06" && (t <= 2500 || thorough) {
                // completed search one ply deeper than the interrupted one
                if cache.v(crate::eng::tl_mg(), &b, d + 1).is_some() && total_nodes(&b, d + 1, 20_000).is_some() {
                    let step = if thorough || t <= 400 { 1 } else { 3 };
                    let pts: Vec<u64> = (0..=t).step_by(step).collect();
                    let pr: Vec<SweepResult> = par_map(&pts, |n| one_point_to(which, &cache, crate::eng::tl_mg(), &rep, name, fen, &b, d, d + 1, &[*n], true));
                    deeper_done = pr.len() as u64;
                    evaluations += deeper_done;
                    nontrivial += pr.iter().filter(|r| r.deadline_hit).count() as u64;
                }
                // game-history content with a recorded history in place
                let pts: Vec<u64> = (0..=t).collect();
                let hr: Vec<bool> = par_map(&pts, |n| history_point(&rep, crate::eng::tl_mg(), name, fen, &b, d, *n));
                history_done = hr.len() as u64;
                evaluations += history_done;
                nontrivial += hr.iter().filter(|x| **x).count() as u64;
            }
            eprintln!("[{}] {} depth {}: T={} nodes, {} crash points, deadline inside the search in {}, pairs {}, deeper-final {}, history probes {}, max overrun {} ({:.1}s)", which, name, d, t, points.len(), hits, pairs_done, deeper_done, history_done, mo, rep.elapsed());
            if samples.len() < 5 {
                samples.push(J::obj().set("fen", *fen).set("depth", d).set("deadline_at_node", t / 2).set("then", if which == "C06" { "completed search of the same position and depth on the same Searcher" } else { "count nodes visited after the deadline was first seen" }));
            }
            per.push(
                J::obj()
                    .set("position", *name)
                    .set("fen", *fen)
                    .set("depth", d)
                    .set("total_nodes_uninterrupted", t)
                    .set("crash_points", points.len())
                    .set("deadline_fell_inside_search", hits)
                    .set("double_interruption_pairs", pairs_done)
                    .set("crash_points_with_completed_search_one_ply_deeper", deeper_done)
                    .set("crash_points_with_recorded_game_history_probed", history_done)
                    .set("crash_points_delivered_by_go_commands", command_done)
                    .set("max_nodes_after_deadline", mo),
            );
        }
    }
    if which == "C07" {
        let n_cap: u64 = if thorough { 3000 } else { 600 };
        for (name, fen) in EXPLOSION_POSITIONS {
            let b = board(fen);
            for d in [1u8, 2] {
                if rep.saturated() || rep.elapsed() > wall_cap {
                    break;
                }
                let points: Vec<u64> = (0..=n_cap).collect();
                let results: Vec<SweepResult> = par_map(&points, |n| one_point(which, &cache, crate::eng::tl_mg(), &rep, name, fen, &b, d, &[*n], false));
                let hits = results.iter().filter(|r| r.deadline_hit).count() as u64;
                let mo = results.iter().map(|r| r.overrun).max().unwrap_or(0);
                max_overrun = max_overrun.max(mo);
                evaluations += points.len() as u64;
                nontrivial += hits;
                eprintln!("[C07] explosion {:?} depth {}: {} deadlines, hit inside {}, max overrun {} ({:.1}s)", name, d, points.len(), hits, mo, rep.elapsed());
                per.push(
                    J::obj()
                        .set("position", *name)
                        .set("fen", *fen)
                        .set("depth", d)
                        .set("deadlines_0_to", n_cap)
                        .set("note", "the uninterrupted search does not terminate in practical time; the sweep is capped at this deadline and the cap is part of the claim")
                        .set("deadline_fell_inside_search", hits)
                        .set("max_nodes_after_deadline", mo),
                );
            }
        }
    }
    let mut worst_us_per_node = 0u64;
    if which == "C07" {
        let n_cap: u64 = if thorough { 1500 } else { 250 };
        for (name, fen) in DENSE_POSITIONS {
            let b = board(fen);
            for d in [1u8, 2] {
                if rep.saturated() || rep.elapsed() > wall_cap {
                    break;
                }
                let points: Vec<u64> = (0..=n_cap).collect();
                let results: Vec<SweepResult> = par_map(&points, |n| one_point(which, &cache, crate::eng::tl_mg(), &rep, name, fen, &b, d, &[*n], false));
                let hits = results.iter().filter(|r| r.deadline_hit).count() as u64;
                let mo = results.iter().map(|r| r.overrun).max().unwrap_or(0);
                let wu = results.iter().map(|r| r.us_per_node).max().unwrap_or(0);
                max_overrun = max_overrun.max(mo);
                worst_us_per_node = worst_us_per_node.max(wu);
                evaluations += points.len() as u64;
                nontrivial += hits;
                eprintln!("[C07] dense {:?} depth {}: {} deadlines, hit inside {}, max overrun {}, costliest search {} us of CPU per node ({:.1}s)", name, d, points.len(), hits, mo, wu, rep.elapsed());
                per.push(
                    J::obj()
                        .set("position", *name)
                        .set("fen", *fen)
                        .set("depth", d)
                        .set("deadlines_0_to", n_cap)
                        .set("note", "a position in which single nodes have the most to do; every interrupted search is also bounded in CPU time per visited node")
                        .set("deadline_fell_inside_search", hits)
                        .set("max_nodes_after_deadline", mo)
                        .set("costliest_search_cpu_us_per_node", wu),
                );
            }
        }
    }
    let mut big_part = J::Null;
    if let Some(h) = big_handle {
        let stages = big_stages.clone();
        let res: Vec<(u64, u64, u64, u64)> = h.join().unwrap_or_default();
        let j: u64 = res.iter().map(|r| r.0).sum();
        let sk: u64 = res.iter().map(|r| r.1).sum();
        evaluations += j + sk;
        nontrivial += j;
        eprintln!("[C07] long-thinking searchers: {} short searches judged, {} not judged, largest table {} entries, costliest short search {} us ({:.1}s)", j, sk, res.iter().map(|r| r.2).max().unwrap_or(0), res.iter().map(|r| r.3).max().unwrap_or(0), rep.elapsed());
        big_part = J::obj()
            .set("positions", BIG_STATE_POSITIONS.len())
            .set("long_think_budgets_nodes", J::Arr(stages.iter().map(|n| J::from(*n)).collect()))
            .set("short_search_budgets_nodes", "0, 1, 10, 100, 1000, 5000, of the same position and of the position two plies on, after every long think")
            .set("short_searches_judged", j)
            .set("not_judged_because_the_tables_storage_could_grow_during_the_search", sk)
            .set("table_entries_after_the_last_long_think", J::Arr(res.iter().map(|r| J::from(r.2)).collect()))
            .set("costliest_short_search_cpu_us", res.iter().map(|r| r.3).max().unwrap_or(0))
            .set("rule", "one searcher per position thinks for the listed node budgets in turn (no reset between them: one long game); after each think every short search must answer within its budget + the overrun limit in nodes and within the CPU bound per visited node, whatever the searcher holds by then");
    }
    let mut real_part = J::Null;
    if which == "C07" && !rep.saturated() {
        if let Some(exe) = engine_plain {
            let (part, n) = real_clock_part(&rep, exe);
            real_part = part;
            evaluations += n;
            nontrivial += n;
        }
    }
    let mut go_part = J::Null;
    if which == "C07" && !rep.saturated() {
        let (part, judged, hits) = go_histories(&rep, thorough);
        go_part = part;
        evaluations += judged;
        nontrivial += hits;
    }
    let cov = J::obj()
        .set("evaluations", evaluations)
        .set("distinct_nontrivial", nontrivial)
        .set("go_command_histories", go_part)
        .set("real_clock", real_part)
        .set("long_thinking_searchers", big_part)
        .set("rule", "a case = (position, depth, deadline node N) [C06 also (N1, N2)]: fresh Searcher, search interrupted exactly at node N under the node clock; non-trivial = the deadline actually fell inside the search; the budgeted go commands of the command-level histories count as cases too")
        .set("cases_on_the_real_timing_path_zero_budget_without_the_node_clock", REAL_ZERO.load(Ordering::Relaxed))
        .set("overrun_limit_nodes", OVERRUN_LIMIT)
        .set("work_bound", format!("every interrupted search of the C07 sweeps: CPU time of its thread <= {} us x nodes visited + {} ms", WORK_PER_NODE_US, WORK_BASE_MS))
        .set("costliest_dense_search_cpu_us_per_node", worst_us_per_node)
        .set("max_nodes_after_deadline_seen", max_overrun)
        .set("sweeps", J::Arr(per))
        .set("samples", J::Arr(samples))
        .set("exhaustive", false);
    let assumptions = if which == "C06" {
        vec![
            "the completed search uses the same maximum depth (<= 3) as the interrupted one, so no entry deeper than needed can serve its final iteration and V(p, d) is the unambiguous expectation (see DESIGN.md C06)".to_string(),
            "reference values as in C05".to_string(),
        ]
    } else {
        vec![
            "work is measured in nodes under the deterministic node clock; that one node is a bounded amount of work is checked separately in CPU time of the searching thread (never wall time), with a bound two orders of magnitude above the engine's cost per node, on every interrupted search of the sweeps including positions built to make single nodes expensive".to_string(),
            format!("'small bounded amount' is taken as <= {} nodes", OVERRUN_LIMIT),
        ]
    };
    rep.finish("fault_enumeration", cov, assumptions, out);
    });
}

pub fn replay_history(fen: &str, d: u8, at: u64) -> i32 {
    let rep = Report::new("C06", "quick", 0);
    crate::watch::start_replay();
    let mg = MoveGenerator::new();
    let b = board(&format!("{} 0 1", Pos::from_fen(fen).unwrap().fen4()));
    history_point(&rep, crate::eng::tl_mg(), "replay", &Pos::from_fen(fen).unwrap().fen(0, 1), &b, d, at);
    let v = rep.violations.lock().unwrap();
    for x in v.iter() {
        println!("REPLAY-VIOLATION {} :: {}", x.sig, x.text);
    }
    if v.is_empty() {
        println!("REPLAY-OK C06 history {} depth {} at {}", fen, d, at);
        0
    } else {
        1
    }
}

pub fn replay_one(which: &str, fen: &str, d: u8, at: &str, fd: Option<u8>) -> i32 {
    let rep = Report::new(if which == "C06" { "C06" } else { "C07" }, "quick", 0);
    crate::watch::start_replay();
    let mg = MoveGenerator::new();
    let cache = RefCache::new(200_000);
    let b = board(&format!("{} 0 1", Pos::from_fen(fen).unwrap().fen4()));
    let ns: Vec<u64> = at.split(',').map(|t| t.parse().unwrap()).collect();
    let r = one_point_to(which, &cache, crate::eng::tl_mg(), &rep, "replay", &Pos::from_fen(fen).unwrap().fen(0, 1), &b, d, fd.unwrap_or(d), &ns, which == "C06");
    let v = rep.violations.lock().unwrap();
    for x in v.iter() {
        println!("REPLAY-VIOLATION {} :: {}", x.sig, x.text);
    }
    if v.is_empty() {
        println!("REPLAY-OK {} {} depth {} at {} (deadline hit {}, overrun {})", which, fen, d, at, r.deadline_hit, r.overrun);
        0
    } else {
        1
    }
}

static _UNUSED: AtomicU64 = AtomicU64::new(0);
fn _unused() {
    _UNUSED.fetch_add(0, Ordering::Relaxed);
}
