//! C08: mate in one is played; an avoidable mate in one is never allowed.
//!
//! The rules model decides, for every state of the enumerated spaces, the set M1 of mating
//! moves and, for every legal move, whether the reply position contains a mate in one. Every
//! state that has a mate in one is searched on a fresh Searcher to depth 1..4, every state
//! with a mix of safe and unsafe moves to depth 2 and 3.

use crate::board::Board;
use crate::eng::{self, guard};
use crate::json::J;
use crate::par::par_map;
use crate::refchess::{sq_at, Kind, Mv, Pos, Side};
use crate::report::Report;
use crate::search::Searcher;
use std::sync::atomic::{AtomicU64, Ordering};

#[derive(Clone)]
pub struct Case {
    pub pos: Pos,
    /// mating moves of the side to move
    pub m1: Vec<Mv>,
    /// legal moves after which the opponent has a mate in one
    pub unsafe_moves: Vec<Mv>,
    pub n_moves: usize,
}

pub fn analyse(p: &Pos) -> Case {
    let moves = p.legal_moves();
    let mut m1 = Vec::new();
    let mut unsafe_moves = Vec::new();
    for m in &moves {
        let n = p.make(*m);
        let replies = n.legal_moves();
        if replies.is_empty() {
            if n.in_check(n.stm) {
                m1.push(*m);
            }
            continue;
        }
        if replies.iter().any(|r| n.make(*r).is_checkmate()) {
            unsafe_moves.push(*m);
        }
    }
    Case { pos: p.clone(), m1, unsafe_moves, n_moves: moves.len() }
}

impl Case {
    pub fn attack_case(&self) -> bool {
        !self.m1.is_empty()
    }
    pub fn defence_case(&self) -> bool {
        !self.unsafe_moves.is_empty() && self.unsafe_moves.len() < self.n_moves
    }
}

/// One fresh-engine search; Err(text) if the answer breaks the property.
pub fn check_search(c: &Case, b: &Board, depth: u8, attack: bool) -> Result<String, String> {
    crate::timer::verif::set_node_clock(Some(1));
    let fen = c.pos.fen4();
    let _job = crate::watch::enter(
        format!("C08 fen={} depth={} no-answer", fen, depth),
        format!("fresh engine, search of {:?} to depth {}: no answer after {} s of CPU time", fen, depth, crate::watch::LIMIT_S),
        vec!["c08-one".to_string(), "--fen".into(), fen.clone(), "--depth".into(), depth.to_string(), "--mode".into(), if attack { "attack".into() } else { "defence".into() }],
    );
    let (_, mv) = guard(|| {
        let mut s = Searcher::new();
        s.find_best_move(b, depth, None)
    })?;
    let m = match mv {
        Some(m) => eng::mv_of(&m),
        None => return Err("no move returned although legal moves exist".to_string()),
    };
    if attack {
        if !c.m1.contains(&m) {
            return Err(format!("depth {}: played {} although [{}] mate(s) at once", depth, m.uci(), eng::moves_text(&c.m1)));
        }
    } else if c.unsafe_moves.contains(&m) {
        let safe: Vec<Mv> = c.pos.legal_moves().into_iter().filter(|x| !c.unsafe_moves.contains(x)).collect();
        return Err(format!("depth {}: played {} which allows mate in one, although [{}] do(es) not", depth, m.uci(), eng::moves_text(&safe)));
    }
    Ok(m.uci())
}

struct Space {
    name: &'static str,
    description: &'static str,
    gen: fn(&mut dyn FnMut(Pos), bool),
}

fn place(list: &[(Side, Kind, u8)], stm: Side) -> Option<Pos> {
    let mut p = Pos::empty();
    for (s, k, sq) in list {
        if p.sq[*sq as usize].is_some() {
            return None;
        }
        p.sq[*sq as usize] = Some((*s, *k));
    }
    p.stm = stm;
    if p.is_valid() {
        Some(p)
    } else {
        None
    }
}

/// The ten squares of the a1-d1-d4 triangle: every pawnless position is a rotation/reflection
/// of one with the lone king there; the sub-class "lone king in the triangle" is complete.
const TRIANGLE: [u8; 10] = [0, 1, 2, 3, 9, 10, 11, 18, 19, 27];

fn gen_three(kind: Kind, full: bool, out: &mut dyn FnMut(Pos)) {
    let bks: Vec<u8> = if full { (0..64).collect() } else { TRIANGLE.to_vec() };
    for bk in bks {
        for wk in 0..64u8 {
            for x in 0..64u8 {
                for stm in [Side::W, Side::B] {
                    if let Some(p) = place(&[(Side::W, Kind::K, wk), (Side::B, Kind::K, bk), (Side::W, kind, x)], stm) {
                        out(p.mirror());
                        out(p);
                    }
                }
            }
        }
    }
}

fn gen_kqk(out: &mut dyn FnMut(Pos), full: bool) {
    gen_three(Kind::Q, full, out);
}
fn gen_krk(out: &mut dyn FnMut(Pos), full: bool) {
    gen_three(Kind::R, full, out);
}

fn gen_four(a: (Side, Kind), b: (Side, Kind), full: bool, out: &mut dyn FnMut(Pos)) {
    let bks: Vec<u8> = if full { TRIANGLE.to_vec() } else { vec![0, 1, 9] };
    for bk in bks {
        for wk in 0..64u8 {
            for x in 0..64u8 {
                for y in 0..64u8 {
                    if a == b && y < x {
                        continue;
                    }
                    for stm in [Side::W, Side::B] {
                        if let Some(p) = place(&[(Side::W, Kind::K, wk), (Side::B, Kind::K, bk), (a.0, a.1, x), (b.0, b.1, y)], stm) {
                            out(p);
                        }
                    }
                }
            }
        }
    }
}

fn gen_krrk(out: &mut dyn FnMut(Pos), full: bool) {
    gen_four((Side::W, Kind::R), (Side::W, Kind::R), full, out);
}
fn gen_kqkr(out: &mut dyn FnMut(Pos), full: bool) {
    gen_four((Side::W, Kind::Q), (Side::B, Kind::R), full, out);
}

/// Pawn endings: K + P v k with the pawn on the 6th/7th (promotion mates and stalemate traps).
fn gen_kpk(out: &mut dyn FnMut(Pos), _full: bool) {
    for bk in 0..64u8 {
        for wk in 0..64u8 {
            for f in 0..8 {
                for r in [5, 6] {
                    let x = sq_at(f, r).unwrap();
                    for stm in [Side::W, Side::B] {
                        if let Some(p) = place(&[(Side::W, Kind::K, wk), (Side::B, Kind::K, bk), (Side::W, Kind::P, x)], stm) {
                            out(p.mirror());
                            out(p);
                        }
                    }
                }
            }
        }
    }
}

/// Middlegame and endgame positions with mating attacks (the FENs of the repository's own mate
/// puzzles): their neighbourhoods contain mates in one next to captures, checks and promotions,
/// and defenders who must pick the one move that does not allow mate.
pub const TACTICAL_ROOTS: &[&str] = &[
    "1k1r4/pp1q1B1p/3bQp2/2p2r2/P6P/2BnP3/1P6/5RKR b - - 0 1",
    "1k2r3/pP3pp1/8/3P1B1p/5q2/N1P2b2/PP3Pp1/R5K1 b - - 0 1",
    "1r6/pk6/4Q3/3P4/8/8/8/6K1 w - - 0 1",
    "2r1nrk1/p4p1p/1p2p1pQ/nPqbRN2/8/P2B4/1BP2PPP/3R2K1 w - - 0 1",
    "3r1r2/4k3/R7/3Q4/8/8/8/6K1 w - - 0 1",
    "3rkr2/8/5Q2/8/8/8/8/6K1 w - - 0 1",
    "4k3/5p2/8/6B1/8/8/8/3R2K1 w - - 0 1",
    "5r2/pp3k2/5r2/q1p2Q2/3P4/6R1/PPP2PP1/1K6 w - - 0 1",
    "6k1/1p1b3p/2pp2p1/p7/2Pb2Pq/1P1PpK2/P1N3RP/1RQ5 b - - 0 1",
    "6k1/6P1/5K1R/8/8/8/8/8 w - - 0 1",
    "8/7R/1pkp4/2p5/1PP5/8/8/6K1 w - - 0 1",
    "8/8/1Q6/8/6pk/5q2/8/6K1 w - - 0 1",
    "8/8/2P5/3K1k2/2R3p1/2q5/8/8 b - - 0 1",
    "r1b1q1r1/ppp3kp/1bnp4/4p1B1/3PP3/2P2Q2/PP3PPP/RN3RK1 w - - 0 1",
    "r1b3nr/ppp3qp/1bnpk3/4p1BQ/3PP3/2P5/PP3PPP/RN3RK1 w - - 0 11",
    "r3k3/p1R2Qp1/2pq4/4p3/2P4P/3BP3/P4P1P/5bK1 b q - 0 1",
    "rR6/5k2/2p3q1/4Qpb1/2PB1Pb1/4P3/r5R1/6K1 w - - 0 1",
    "rn1r2k1/ppp2ppp/3q1n2/4b1B1/4P1b1/1BP1Q3/PP3PPP/RN2K1NR b KQ - 0 1",
    "rn3rk1/p5pp/2p5/3Ppb2/2q5/1Q6/PPPB2PP/R3K1NR b KQ - 0 1",
    // capture available next to a quiet mate; defender with one safe move; all-moves-lose positions
    "4k3/5p2/7q/6B1/8/8/8/3R2K1 w - - 0 1",
    "4r1k1/5ppp/8/7r/1n6/8/R4PPP/3Q2K1 w - - 0 1",
    "6k1/5ppp/8/8/8/8/5PPP/3RR1K1 w - - 0 1",
    "r5k1/5ppp/8/8/8/8/1q3PPP/R5K1 w - - 0 1",
];

/// Lone king (to move) against king + two queens: every move loses, some lose to a mate in one.
fn gen_kqq_defence(out: &mut dyn FnMut(Pos), full: bool) {
    let attackers: Vec<u8> = if full { vec![63, 60, 32, 36] } else { vec![63] };
    for ak in attackers {
        for lk in TRIANGLE {
            for x in 0..64u8 {
                for y in (x + 1)..64u8 {
                    if let Some(p) = place(&[(Side::W, Kind::K, lk), (Side::B, Kind::K, ak), (Side::B, Kind::Q, x), (Side::B, Kind::Q, y)], Side::W) {
                        out(p.mirror());
                        out(p);
                    }
                }
            }
        }
    }
}

/// Lone king (to move) against king + queen + rook.
fn gen_kqr_defence(out: &mut dyn FnMut(Pos), full: bool) {
    let attackers: Vec<u8> = if full { vec![63, 60, 32, 36] } else { vec![63] };
    for ak in attackers {
        for lk in TRIANGLE {
            for x in 0..64u8 {
                for y in 0..64u8 {
                    if let Some(p) = place(&[(Side::W, Kind::K, lk), (Side::B, Kind::K, ak), (Side::B, Kind::Q, x), (Side::B, Kind::R, y)], Side::W) {
                        out(p);
                    }
                }
            }
        }
    }
}

/// Mates delivered by castling (the castled rook gives the check): K e1 + R h1 with the right K, or
/// R a1 with the right Q, a queen and one more white man anywhere, black king anywhere. Kept are the
/// positions in which castling mates with white to move, and the same placements with black to move
/// (the defender must see the castling mate coming). Both colours.
fn gen_castle_mates(out: &mut dyn FnMut(Pos), full: bool) {
    use crate::refchess::{WK, WQ};
    let helpers: Vec<Kind> = if full { vec![Kind::N, Kind::B, Kind::R, Kind::P] } else { vec![Kind::N] };
    for (rook, right, kto) in [(7u8, WK, 6u8), (0u8, WQ, 2u8)] {
        for helper in &helpers {
            for bk in 0..64u8 {
                for q in 0..64u8 {
                    for x in 0..64u8 {
                        let mut p = Pos::empty();
                        let list = [(Side::W, Kind::K, 4u8), (Side::W, Kind::R, rook), (Side::B, Kind::K, bk), (Side::W, Kind::Q, q), (Side::W, *helper, x)];
                        let mut clash = false;
                        for (s, k, sq) in list {
                            if p.sq[sq as usize].is_some() {
                                clash = true;
                                break;
                            }
                            p.sq[sq as usize] = Some((s, k));
                        }
                        if clash {
                            continue;
                        }
                        p.castle[right] = true;
                        p.stm = Side::W;
                        if !p.is_valid() {
                            continue;
                        }
                        let castle = Mv { from: 4, to: kto, promo: None };
                        if !p.legal_moves().contains(&castle) || !p.make(castle).is_checkmate() {
                            continue;
                        }
                        let mut b = p.clone();
                        b.stm = Side::B;
                        if b.is_valid() {
                            out(b.mirror());
                            out(b);
                        }
                        out(p.mirror());
                        out(p);
                    }
                }
            }
        }
    }
}

const SPACES_QUICK: &[Space] = &[
    Space { name: "castling mates", description: "K e1 + R h1 (right K) or R a1 (right Q) + Q + N anywhere v k anywhere: every placement in which castling is mate, white to move and black to move, both colours", gen: gen_castle_mates },
    Space { name: "K+Q v k", description: "every valid placement with the lone king in the a1-d1-d4 triangle, both sides to move, both colours", gen: gen_kqk },
    Space { name: "K+R v k", description: "every valid placement with the lone king in the a1-d1-d4 triangle, both sides to move, both colours", gen: gen_krk },
    Space { name: "K+P v k", description: "pawn on its 6th or 7th rank, kings anywhere, both sides to move, both colours", gen: gen_kpk },
    Space { name: "K v k+q+q (lone king to move)", description: "lone king in the a1-d1-d4 triangle, attacking king on h8, two queens anywhere, both colours: every move loses, the defensive half decides", gen: gen_kqq_defence },
];

const SPACES_THOROUGH: &[Space] = &[
    Space { name: "castling mates", description: "K e1 + R h1 (right K) or R a1 (right Q) + Q + one of N/B/R/P anywhere v k anywhere: every placement in which castling is mate, white to move and black to move, both colours", gen: gen_castle_mates },
    Space { name: "K+Q v k", description: "every valid placement, both sides to move, both colours", gen: gen_kqk },
    Space { name: "K+R v k", description: "every valid placement, both sides to move, both colours", gen: gen_krk },
    Space { name: "K+P v k", description: "pawn on its 6th or 7th rank, kings anywhere, both sides to move, both colours", gen: gen_kpk },
    Space { name: "K+R+R v k", description: "every valid placement with the lone king in the a1-d1-d4 triangle, both sides to move", gen: gen_krrk },
    Space { name: "K+Q v k+r", description: "every valid placement with the black king in the a1-d1-d4 triangle, both sides to move", gen: gen_kqkr },
    Space { name: "K v k+q+q (lone king to move)", description: "lone king in the a1-d1-d4 triangle, attacking king on h8, e8, a5 or e5, two queens anywhere, both colours", gen: gen_kqq_defence },
    Space { name: "K v k+q+r (lone king to move)", description: "lone king in the a1-d1-d4 triangle, attacking king on h8, e8, a5 or e5, queen and rook anywhere", gen: gen_kqr_defence },
];

struct Tot {
    states: AtomicU64,
    attack: AtomicU64,
    defence: AtomicU64,
    searches: AtomicU64,
}

/// Searches run with a halfmove clock of 98 / 99 in the FEN
pub static LATE_CLOCK: std::sync::atomic::AtomicU64 = std::sync::atomic::AtomicU64::new(0);

fn run_cases(rep: &Report, cases: &[Case], tot: &Tot, samples: &mut Vec<J>, max_attack_depth: u8) {
    // one job per (case, depth, kind)
    // the same position late in a game: a halfmove clock of 99 (the mating move completes the
    // fiftieth move) or 98 (the opponent's mating reply would): checkmate ends the game whatever
    // the clock says, so the answers must be the same. Shallow depths only (the cost is the search).
    let mut jobs: Vec<(usize, u8, bool, u32)> = Vec::new();
    for (i, c) in cases.iter().enumerate() {
        if c.attack_case() {
            for d in 1..=max_attack_depth {
                jobs.push((i, d, true, 0));
                if d == 1 {
                    jobs.push((i, d, true, 99));
                }
            }
        }
        if c.defence_case() {
            for d in [2u8, 3] {
                jobs.push((i, d, false, 0));
            }
            jobs.push((i, 2, false, 98));
        }
    }
    let res: Vec<Option<String>> = par_map(&jobs, |&(i, d, attack, hm)| {
        if rep.saturated() {
            return None;
        }
        let c = &cases[i];
        let fen = if hm == 0 { c.pos.fen4() } else { c.pos.fen(hm, 80) };
        let b = match if hm == 0 { eng::board_of(&c.pos) } else { eng::board_of_fen(&fen) } {
            Ok(b) => b,
            Err(_) => return None,
        };
        if hm != 0 {
            LATE_CLOCK.fetch_add(1, Ordering::Relaxed);
        }
        tot.searches.fetch_add(1, Ordering::Relaxed);
        match check_search(c, &b, d, attack) {
            Ok(m) => Some(m),
            Err(text) => {
                rep.violation(
                    format!("C08 fen={} depth={} {}", fen, d, if attack { "mate-in-one-not-played" } else { "allowed-mate-in-one" }),
                    format!("fresh engine, {:?}, {}", fen, text),
                    vec!["c08-one".to_string(), "--fen".into(), fen.clone(), "--depth".into(), d.to_string(), "--mode".into(), if attack { "attack".into() } else { "defence".into() }],
                    J::Null,
                );
                None
            }
        }
    });
    for ((i, d, attack, _), r) in jobs.iter().zip(res.iter()) {
        if samples.len() < 6 && r.is_some() && (samples.len() % 2 == 0) == *attack {
            let c = &cases[*i];
            samples.push(
                J::obj()
                    .set("fen", c.pos.fen4())
                    .set("depth", *d)
                    .set("kind", if *attack { "mate in one available" } else { "some moves allow mate in one, some do not" })
                    .set("mating_moves", eng::moves_text(&c.m1))
                    .set("moves_allowing_mate_in_one", eng::moves_text(&c.unsafe_moves))
                    .set("engine_played", r.clone().unwrap()),
            );
        }
    }
}

pub fn run(tier: &str, seed: u64, out: &str) {
    let rep = Report::new("C08", tier, seed);
    let thorough = tier == "thorough";
    if let Err(e) = crate::refchess::self_test(3) {
        eprintln!("MACHINERY ERROR: {}", e);
        std::process::exit(2);
    }
    crate::watch::start_default("C08", "model_checking", tier, seed, out);
    let tot = Tot { states: AtomicU64::new(0), attack: AtomicU64::new(0), defence: AtomicU64::new(0), searches: AtomicU64::new(0) };
    let mut parts = Vec::new();
    let mut samples = Vec::new();
    // only a guard against pathological slowness: coverage must not depend on how busy the machine is
    let wall_cap = if thorough { 6000.0 } else { 900.0 };

    // ---- neighbourhoods of the special roots (model-side enumeration to depth d)
    {
        let roots = crate::roots::all_roots().unwrap_or_else(|e| {
            eprintln!("MACHINERY ERROR: {}", e);
            std::process::exit(2)
        });
        let depth = if thorough { 2 } else { 1 };
        let mut seen = std::collections::HashSet::new();
        let mut states: Vec<Pos> = Vec::new();
        let mut frontier: Vec<Pos> = roots.iter().map(|r| r.pos.clone()).collect();
        for layer in 0..=depth {
            let mut next = Vec::new();
            for p in frontier {
                if seen.insert(p.fen4()) {
                    if layer < depth {
                        for m in p.legal_moves() {
                            next.push(p.make(m));
                        }
                    }
                    states.push(p);
                }
            }
            frontier = next;
        }
        let cases: Vec<Case> = par_map(&states, analyse).into_iter().filter(|c| c.attack_case() || c.defence_case()).collect();
        let a = cases.iter().filter(|c| c.attack_case()).count();
        let d = cases.iter().filter(|c| c.defence_case()).count();
        tot.states.fetch_add(states.len() as u64, Ordering::Relaxed);
        tot.attack.fetch_add(a as u64, Ordering::Relaxed);
        tot.defence.fetch_add(d as u64, Ordering::Relaxed);
        run_cases(&rep, &cases, &tot, &mut samples, 4);
        eprintln!("[C08] root neighbourhood depth {}: {} states, {} with a mate in one, {} with mixed safe/unsafe moves ({:.1}s)", depth, states.len(), a, d, rep.elapsed());
        parts.push(J::obj().set("space", format!("every state within {} plies of the {} special roots", depth, roots.len())).set("states", states.len()).set("with_mate_in_one", a).set("with_mixed_moves", d));
    }

    // ---- neighbourhoods of the tactical roots
    if !rep.saturated() {
        let depth = if thorough { 2 } else { 1 };
        let mut seen = std::collections::HashSet::new();
        let mut states: Vec<Pos> = Vec::new();
        let mut frontier: Vec<Pos> = Vec::new();
        for f in TACTICAL_ROOTS {
            let p = Pos::from_fen(f).unwrap();
            if let Err(e) = p.validity() {
                eprintln!("MACHINERY ERROR: C08 tactical root {:?}: {}", f, e);
                std::process::exit(2);
            }
            frontier.push(p.mirror());
            frontier.push(p);
        }
        for layer in 0..=depth {
            let mut next = Vec::new();
            for p in frontier {
                if seen.insert(p.fen4()) {
                    if layer < depth {
                        for m in p.legal_moves() {
                            next.push(p.make(m));
                        }
                    }
                    states.push(p);
                }
            }
            frontier = next;
        }
        let cases: Vec<Case> = par_map(&states, analyse).into_iter().filter(|c| c.attack_case() || c.defence_case()).collect();
        let a = cases.iter().filter(|c| c.attack_case()).count();
        let d = cases.iter().filter(|c| c.defence_case()).count();
        tot.states.fetch_add(states.len() as u64, Ordering::Relaxed);
        tot.attack.fetch_add(a as u64, Ordering::Relaxed);
        tot.defence.fetch_add(d as u64, Ordering::Relaxed);
        run_cases(&rep, &cases, &tot, &mut samples, if thorough { 4 } else { 3 });
        eprintln!("[C08] tactical neighbourhood depth {}: {} states, {} with a mate in one, {} with mixed safe/unsafe moves ({:.1}s)", depth, states.len(), a, d, rep.elapsed());
        parts.push(
            J::obj()
                .set("space", format!("every state within {} plies of {} tactical roots (with colour mirrors)", depth, TACTICAL_ROOTS.len()))
                .set("states", states.len())
                .set("with_mate_in_one", a)
                .set("with_mixed_moves", d)
                .set("attack_depths", if thorough { "1..4" } else { "1..3" }),
        );
    }

    for sp in if thorough { SPACES_THOROUGH } else { SPACES_QUICK } {
        if rep.saturated() {
            break;
        }
        if rep.elapsed() > wall_cap {
            rep.cap(format!("wall cap {} s reached before space {:?}", wall_cap, sp.name));
            break;
        }
        let mut states: Vec<Pos> = Vec::new();
        (sp.gen)(&mut |p| states.push(p), thorough);
        let mut seen = std::collections::HashSet::new();
        states.retain(|p| seen.insert(eng::key_of_pos(p)));
        let cases: Vec<Case> = par_map(&states, analyse).into_iter().filter(|c| c.attack_case() || c.defence_case()).collect();
        let a = cases.iter().filter(|c| c.attack_case()).count();
        let d = cases.iter().filter(|c| c.defence_case()).count();
        tot.states.fetch_add(states.len() as u64, Ordering::Relaxed);
        tot.attack.fetch_add(a as u64, Ordering::Relaxed);
        tot.defence.fetch_add(d as u64, Ordering::Relaxed);
        run_cases(&rep, &cases, &tot, &mut samples, 4);
        eprintln!("[C08] {}: {} states, {} with a mate in one, {} with mixed safe/unsafe moves ({:.1}s)", sp.name, states.len(), a, d, rep.elapsed());
        parts.push(J::obj().set("space", sp.name).set("description", sp.description).set("states", states.len()).set("with_mate_in_one", a).set("with_mixed_moves", d));
    }

    // ---- retrograde classes: every mating move type, with and without a distractor
    if !rep.saturated() && rep.elapsed() <= wall_cap {
        use crate::props::c08retro::{generate, RetroOptions};
        use Kind::*;
        let region: Vec<u8> = vec![56, 57, 58, 59];
        let cap_q = [None, Some(Q)];
        let cap_all = [None, Some(Q), Some(R), Some(B), Some(N), Some(P)];
        // (white men besides the king in the mated position, keep promotions to Q/R, defensive half)
        let quick_sets: Vec<(Vec<Kind>, bool, bool)> = vec![
            (vec![P, Q], false, true),
            (vec![P, R], false, false),
            (vec![P, N], true, true),
            (vec![P, B], true, false),
            (vec![P, P], true, true),
            (vec![N, N], true, true),
            (vec![B, N], true, false),
        ];
        let thorough_sets: Vec<(Vec<Kind>, bool, bool)> = vec![
            (vec![P, Q], true, true),
            (vec![P, R], true, true),
            (vec![P, N], true, true),
            (vec![P, B], true, true),
            (vec![P, P], true, true),
            (vec![N, N], true, true),
            (vec![B, N], true, true),
            (vec![B, B], true, true),
            (vec![R, N], true, true),
            (vec![R, B], true, true),
            (vec![Q, N], true, true),
            (vec![Q, R], true, true),
            (vec![R, R], true, true),
            (vec![Q], true, true),
            (vec![R], true, true),
        ];
        for (mat, promos, defence) in if thorough { &thorough_sets } else { &quick_sets } {
            if rep.saturated() {
                break;
            }
            if rep.elapsed() > wall_cap {
                rep.cap(format!("wall cap {} s reached before retrograde class {:?}", wall_cap, mat));
                break;
            }
            let o = RetroOptions {
                material: mat,
                region: &region,
                captured: if thorough { &cap_all } else { &cap_q },
                keep_plain_heavy_moves: false,
                keep_heavy_promotions: *promos,
                distractors: if thorough { &[Q, R, N] } else { &[Q] },
                defence: *defence,
                defence_from_distracted: false,
            };
            let cls = generate(&o);
            // both colours: the class and its colour mirror
            let mut states: Vec<Pos> = Vec::new();
            for p in cls.attack.iter().chain(cls.defence.iter()) {
                states.push(p.mirror());
                states.push(p.clone());
            }
            let cases: Vec<Case> = par_map(&states, analyse).into_iter().filter(|c| c.attack_case() || c.defence_case()).collect();
            let a = cases.iter().filter(|c| c.attack_case()).count();
            let d = cases.iter().filter(|c| c.defence_case()).count();
            tot.states.fetch_add(states.len() as u64, Ordering::Relaxed);
            tot.attack.fetch_add(a as u64, Ordering::Relaxed);
            tot.defence.fetch_add(d as u64, Ordering::Relaxed);
            run_cases(&rep, &cases, &tot, &mut samples, if thorough { 3 } else { 2 });
            eprintln!("[C08] retrograde K+{:?} v k: {} mates, {} predecessors by type {:?}, {} with a distractor, {} black predecessors; {} states, {} with a mate in one, {} with mixed moves ({:.1}s)", mat, cls.stats.mates, cls.stats.predecessors, cls.stats.by_move_type, cls.stats.with_distractor, cls.stats.defence_positions, states.len(), a, d, rep.elapsed());
            let mut types = J::obj();
            for (k, v) in &cls.stats.by_move_type {
                types.put(k, *v);
            }
            parts.push(
                J::obj()
                    .set("space", format!("retrograde: K+{:?} v k", mat))
                    .set("description", "every checkmate with the mated king on a8..d8 and this white material; the mating move un-made in every way the rules allow (see mating_move_types), captured piece in the listed kinds; each predecessor also with one black distractor on every square where white can capture it instead of mating; defensive half: one more black non-capturing move un-made; both colours (mirror)")
                    .set("captured_kinds", if thorough { "none, q, r, b, n, p" } else { "none, q" })
                    .set("distractor_kinds", if thorough { "q, r, n" } else { "q" })
                    .set("plain_queen_and_rook_moves", "left to the forward classes")
                    .set("plain_promotions_to_queen_or_rook", *promos)
                    .set("checkmates", cls.stats.mates)
                    .set("predecessors", cls.stats.predecessors)
                    .set("mating_move_types", types)
                    .set("with_distractor", cls.stats.with_distractor)
                    .set("black_predecessors", cls.stats.defence_positions)
                    .set("states", states.len())
                    .set("with_mate_in_one", a)
                    .set("with_mixed_moves", d)
                    .set("attack_depths", if thorough { "1..3" } else { "1..2" }),
            );
        }
    }

    let searches = tot.searches.load(Ordering::Relaxed);
    let cov = J::obj()
        .set("states", tot.states.load(Ordering::Relaxed))
        .set("transitions", searches)
        .set("traces_validated_against_impl", searches)
        .set("evaluations", searches)
        .set("distinct_nontrivial", tot.attack.load(Ordering::Relaxed) + tot.defence.load(Ordering::Relaxed))
        .set("rule", "states = every position of the listed spaces, classified by the rules model; a case is non-trivial if it has a mate in one (searched at depth 1..4) or a mix of moves that do / do not allow a mate in one (searched at depth 2, 3); each search runs on a fresh Searcher")
        .set("states_with_mate_in_one", tot.attack.load(Ordering::Relaxed))
        .set("states_with_mixed_moves", tot.defence.load(Ordering::Relaxed))
        .set("fresh_engine_searches", searches)
        .set("of_which_with_a_halfmove_clock_of_98_or_99", LATE_CLOCK.load(Ordering::Relaxed))
        .set("spaces", J::Arr(parts))
        .set("samples", J::Arr(samples))
        .set("exhaustive", false);
    rep.finish(
        "model_checking",
        cov,
        vec!["the rules model decides mate / mate-in-one (perft self-test)".into(), "positions outside the listed spaces are not covered".into()],
        out,
    );
}

pub fn replay(fen: &str, depth: u8, attack: bool) -> i32 {
    let p = Pos::from_fen(fen).unwrap();
    let c = analyse(&p);
    // a FEN with counters is given to the engine as it is (late-clock cases)
    let b = if fen.split_whitespace().count() >= 6 { eng::board_of_fen(fen).unwrap() } else { eng::board_of(&p).unwrap() };
    if (attack && !c.attack_case()) || (!attack && !c.defence_case()) {
        println!("REPLAY-OK C08 {} is not a case of this kind", fen);
        return 0;
    }
    match check_search(&c, &b, depth, attack) {
        Ok(m) => {
            println!("REPLAY-OK C08 {} depth {} played {}", fen, depth, m);
            0
        }
        Err(t) => {
            println!("REPLAY-VIOLATION C08 fen={} depth={} :: {}", fen, depth, t);
            1
        }
    }
}
