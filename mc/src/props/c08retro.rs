//! Retrograde generation of mate-in-one positions for C08.
//!
//! The forward classes of c08.rs (K+Q v k, K+R v k, ...) contain only a few kinds of mating
//! move. Here every checkmate of a small material class is enumerated and the mating move is
//! un-made in every way the rules allow -- quiet piece move, capture (each captured kind), pawn
//! push, double push, pawn capture, en passant, promotion (with and without capture), castling,
//! discovered mates included since any white man may be the one that moved. Each predecessor is
//! then decorated with one black "distractor" that white could capture instead of mating, on
//! every square where that is possible. The rules model does all of it: a candidate predecessor
//! is kept only if it is a valid position in which the model's own legal move produces a
//! checkmate.
//!
//! For the defensive half one more black move is un-made: positions in which black, to move,
//! can step into such a mate in one.

use crate::eng;
use crate::par::par_map;
use crate::refchess::{file_of, rank_of, sq_at, Kind, Mv, Pos, Side, WK, WQ};
use std::collections::HashSet;

pub struct RetroStats {
    pub mates: usize,
    pub predecessors: usize,
    pub by_move_type: std::collections::BTreeMap<String, usize>,
    pub with_distractor: usize,
    pub defence_positions: usize,
}

fn place_all(men: &[(Side, Kind, u8)], stm: Side) -> Option<Pos> {
    let mut p = Pos::empty();
    for (s, k, sq) in men {
        if p.sq[*sq as usize].is_some() {
            return None;
        }
        if *k == Kind::P && (rank_of(*sq) == 0 || rank_of(*sq) == 7) {
            return None;
        }
        p.sq[*sq as usize] = Some((*s, *k));
    }
    p.stm = stm;
    Some(p)
}

/// All checkmated positions (black to move) with the black king on one of `region` and white
/// king + `material` anywhere.
fn mates(material: &[Kind], region: &[u8]) -> Vec<Pos> {
    let mut units: Vec<(u8, u8)> = Vec::new();
    for &bk in region {
        for wk in 0..64u8 {
            units.push((bk, wk));
        }
    }
    let res: Vec<Vec<Pos>> = par_map(&units, |&(bk, wk)| {
        let mut out = Vec::new();
        let n = material.len();
        let mut idx = vec![0u8; n];
        'outer: loop {
            // identical kinds: ascending squares only
            let mut ok = true;
            for i in 1..n {
                if material[i] == material[i - 1] && idx[i] <= idx[i - 1] {
                    ok = false;
                }
            }
            if ok {
                let mut men = vec![(Side::W, Kind::K, wk), (Side::B, Kind::K, bk)];
                for i in 0..n {
                    men.push((Side::W, material[i], idx[i]));
                }
                if let Some(p) = place_all(&men, Side::B) {
                    if p.in_check(Side::B) && !p.in_check(Side::W) && p.is_valid() && p.legal_moves().is_empty() {
                        out.push(p);
                    }
                }
            }
            // next tuple
            let mut i = 0;
            loop {
                if i == n {
                    break 'outer;
                }
                idx[i] += 1;
                if idx[i] < 64 {
                    break;
                }
                idx[i] = 0;
                i += 1;
            }
        }
        out
    });
    res.into_iter().flatten().collect()
}

fn same_placement(a: &Pos, b: &Pos) -> bool {
    a.sq == b.sq && a.stm == b.stm
}

fn move_type(q: &Pos, m: Mv) -> String {
    let kind = q.sq[m.from as usize].unwrap().1;
    let capture = q.sq[m.to as usize].is_some();
    let n = q.make(m);
    // discovered: the moved man does not attack the king itself
    let mut alone = Pos::empty();
    let bk = n.king_sq(Side::B).unwrap();
    alone.sq[bk as usize] = Some((Side::B, Kind::K));
    alone.sq[m.to as usize] = n.sq[m.to as usize];
    // blockers matter for sliders: keep all men but make the others harmless (black knights)
    let mut direct = n.clone();
    for s in 0..64usize {
        if s != m.to as usize && s != bk as usize {
            if let Some((Side::W, _)) = direct.sq[s] {
                direct.sq[s] = Some((Side::B, Kind::N));
            }
        }
    }
    let discovered = !direct.attacked(bk, Side::W);
    let base = if kind == Kind::K && (file_of(m.from) - file_of(m.to)).abs() == 2 {
        "castling".to_string()
    } else if m.promo.is_some() {
        format!("promotion to {:?}{}", m.promo.unwrap(), if capture { " by capture" } else { "" })
    } else if kind == Kind::P && file_of(m.from) != file_of(m.to) && !capture {
        "en passant".to_string()
    } else if kind == Kind::P && (rank_of(m.from) - rank_of(m.to)).abs() == 2 {
        "pawn double push".to_string()
    } else if kind == Kind::P {
        (if capture { "pawn capture" } else { "pawn push" }).to_string()
    } else {
        format!("{:?} {}", kind, if capture { "capture" } else { "quiet move" })
    };
    if discovered {
        format!("{} (discovered mate)", base)
    } else {
        base
    }
}

/// Every valid predecessor (white to move) of the mated position `p`, with the mating move.
fn predecessors(p: &Pos, captured: &[Option<Kind>]) -> Vec<(Pos, Mv)> {
    let mut out: Vec<(Pos, Mv)> = Vec::new();
    let mut try_q = |q: Pos, from: u8, to: u8, promo: Option<Kind>, out: &mut Vec<(Pos, Mv)>| {
        if !q.is_valid() {
            return;
        }
        let m = Mv { from, to, promo };
        if !q.legal_moves().contains(&m) {
            return;
        }
        let n = q.make(m);
        if same_placement(&n, p) && n.is_checkmate() {
            out.push((q, m));
        }
    };
    for t in 0..64u8 {
        let kind = match p.sq[t as usize] {
            Some((Side::W, k)) => k,
            _ => continue,
        };
        // the man on t moved there from f (optionally capturing)
        for f in 0..64u8 {
            if f == t || p.sq[f as usize].is_some() {
                continue;
            }
            for &c in captured {
                if let Some(Kind::P) = c {
                    if rank_of(t) == 0 || rank_of(t) == 7 {
                        continue;
                    }
                }
                let mut q = p.clone();
                q.stm = Side::W;
                q.ep = None;
                q.sq[t as usize] = c.map(|k| (Side::B, k));
                q.sq[f as usize] = Some((Side::W, kind));
                if kind == Kind::P && (rank_of(f) == 0 || rank_of(f) == 7) {
                    continue;
                }
                try_q(q, f, t, None, &mut out);
            }
        }
        // promotion: the piece on the 8th rank was a pawn on the 7th
        if rank_of(t) == 7 && kind != Kind::K && kind != Kind::P {
            for df in [-1, 0, 1] {
                if let Some(f) = sq_at(file_of(t) + df, 6) {
                    if p.sq[f as usize].is_some() {
                        continue;
                    }
                    for &c in captured {
                        if c == Some(Kind::P) {
                            continue;
                        }
                        let mut q = p.clone();
                        q.stm = Side::W;
                        q.ep = None;
                        q.sq[t as usize] = c.map(|k| (Side::B, k));
                        q.sq[f as usize] = Some((Side::W, Kind::P));
                        try_q(q, f, t, Some(kind), &mut out);
                    }
                }
            }
        }
        // en passant: pawn on the 6th came from the 5th, the captured pawn stood below t
        if kind == Kind::P && rank_of(t) == 5 {
            for df in [-1, 1] {
                if let (Some(f), Some(v)) = (sq_at(file_of(t) + df, 4), sq_at(file_of(t), 4)) {
                    if p.sq[f as usize].is_some() || p.sq[v as usize].is_some() {
                        continue;
                    }
                    let mut q = p.clone();
                    q.stm = Side::W;
                    q.sq[t as usize] = None;
                    q.sq[f as usize] = Some((Side::W, Kind::P));
                    q.sq[v as usize] = Some((Side::B, Kind::P));
                    q.ep = Some(t);
                    try_q(q, f, t, None, &mut out);
                }
            }
        }
    }
    // castling
    if p.sq[6] == Some((Side::W, Kind::K)) && p.sq[5] == Some((Side::W, Kind::R)) && p.sq[4].is_none() && p.sq[7].is_none() {
        let mut q = p.clone();
        q.stm = Side::W;
        q.ep = None;
        q.sq[6] = None;
        q.sq[5] = None;
        q.sq[4] = Some((Side::W, Kind::K));
        q.sq[7] = Some((Side::W, Kind::R));
        q.castle[WK] = true;
        try_q(q, 4, 6, None, &mut out);
    }
    if p.sq[2] == Some((Side::W, Kind::K)) && p.sq[3] == Some((Side::W, Kind::R)) && p.sq[4].is_none() && p.sq[0].is_none() && p.sq[1].is_none() {
        let mut q = p.clone();
        q.stm = Side::W;
        q.ep = None;
        q.sq[2] = None;
        q.sq[3] = None;
        q.sq[4] = Some((Side::W, Kind::K));
        q.sq[0] = Some((Side::W, Kind::R));
        q.castle[WQ] = true;
        try_q(q, 4, 2, None, &mut out);
    }
    out
}

/// `q` with one black distractor on every empty square where white can capture it and the mate
/// `m` still works.
fn distract(q: &Pos, m: Mv, kinds: &[Kind]) -> Vec<Pos> {
    let mut out = Vec::new();
    for s in 0..64u8 {
        if q.sq[s as usize].is_some() || Some(s) == q.ep {
            continue;
        }
        for &k in kinds {
            if k == Kind::P && (rank_of(s) == 0 || rank_of(s) == 7) {
                continue;
            }
            let mut d = q.clone();
            d.sq[s as usize] = Some((Side::B, k));
            if !d.is_valid() {
                continue;
            }
            let lm = d.legal_moves();
            if !lm.contains(&m) || !lm.iter().any(|x| x.to == s) {
                continue;
            }
            if d.make(m).is_checkmate() {
                out.push(d);
            }
        }
    }
    out
}

/// Positions with black to move from which one black non-capturing move reaches `q`.
fn black_predecessors(q: &Pos) -> Vec<Pos> {
    let mut out = Vec::new();
    if q.ep.is_some() {
        return out;
    }
    for t in 0..64u8 {
        let kind = match q.sq[t as usize] {
            Some((Side::B, k)) => k,
            _ => continue,
        };
        for f in 0..64u8 {
            if f == t || q.sq[f as usize].is_some() {
                continue;
            }
            if kind == Kind::P && (rank_of(f) == 0 || rank_of(f) == 7) {
                continue;
            }
            let mut r = q.clone();
            r.stm = Side::B;
            r.sq[t as usize] = None;
            r.sq[f as usize] = Some((Side::B, kind));
            if !r.is_valid() {
                continue;
            }
            let m = Mv { from: f, to: t, promo: None };
            if r.legal_moves().contains(&m) && same_placement(&r.make(m), q) && r.make(m).ep == q.ep {
                out.push(r);
            }
        }
    }
    out
}

pub struct RetroClass {
    pub attack: Vec<Pos>,
    pub defence: Vec<Pos>,
    pub stats: RetroStats,
}

pub struct RetroOptions<'a> {
    /// white men besides the king, as they stand in the mated position
    pub material: &'a [Kind],
    /// squares of the mated king
    pub region: &'a [u8],
    /// what the mating move may have captured (None = nothing)
    pub captured: &'a [Option<Kind>],
    /// keep plain (not discovered) mating moves by Q/R that neither promote nor castle
    pub keep_plain_heavy_moves: bool,
    /// keep plain (not discovered) promotions to Q/R
    pub keep_heavy_promotions: bool,
    /// black kinds added one at a time where white can capture them
    pub distractors: &'a [Kind],
    pub defence: bool,
    pub defence_from_distracted: bool,
}

pub fn generate(o: &RetroOptions) -> RetroClass {
    let ms = mates(o.material, o.region);
    let preds: Vec<Vec<(Pos, Mv)>> = par_map(&ms, |p| predecessors(p, o.captured));
    let mut seen: HashSet<eng::EKey> = HashSet::new();
    let mut plain: Vec<(Pos, Mv)> = Vec::new();
    let mut by_type = std::collections::BTreeMap::new();
    for (q, m) in preds.into_iter().flatten() {
        let ty = move_type(&q, m);
        if !o.keep_plain_heavy_moves && (ty.starts_with("Q ") || ty.starts_with("R ")) && !ty.contains("discovered") {
            continue;
        }
        if !o.keep_heavy_promotions && (ty.starts_with("promotion to Q") || ty.starts_with("promotion to R")) && !ty.contains("discovered") {
            continue;
        }
        if seen.insert(eng::key_of_pos(&q)) {
            *by_type.entry(ty).or_insert(0usize) += 1;
            plain.push((q, m));
        }
    }
    let distracted: Vec<Vec<Pos>> = par_map(&plain, |(q, m)| distract(q, *m, o.distractors));
    let mut attack: Vec<Pos> = plain.iter().map(|x| x.0.clone()).collect();
    let mut n_dis = 0;
    for d in distracted.into_iter().flatten() {
        if seen.insert(eng::key_of_pos(&d)) {
            attack.push(d);
            n_dis += 1;
        }
    }
    let mut defence_pos = Vec::new();
    if o.defence {
        let src: Vec<Pos> = if o.defence_from_distracted { attack.clone() } else { plain.iter().map(|x| x.0.clone()).collect() };
        let rs: Vec<Vec<Pos>> = par_map(&src, black_predecessors);
        let mut dseen: HashSet<eng::EKey> = HashSet::new();
        for r in rs.into_iter().flatten() {
            if dseen.insert(eng::key_of_pos(&r)) {
                defence_pos.push(r);
            }
        }
    }
    let stats = RetroStats { mates: ms.len(), predecessors: plain.len(), by_move_type: by_type, with_distractor: n_dis, defence_positions: defence_pos.len() };
    RetroClass { attack, defence: defence_pos, stats }
}
