//! C16: protocol handshake, tolerance of unknown input, clean termination.
//!
//! Every sequence of <= L lines over a protocol alphabet is written to the real engine binary,
//! stdin is closed, and stdout / exit status / termination are compared with a small reference
//! state machine. Runs against the hooks-off binary (what users run) and the hooks-on binary.

use crate::blackbox::{self, Opts, RunResult};
use crate::json::J;
use crate::par::par_map;
use crate::refchess::{Mv, Pos};
use crate::report::Report;
use std::sync::atomic::{AtomicU64, Ordering};
use std::time::Duration;

pub const ALPHABET: &[&str] = &[
    "uci",
    "isready",
    "ucinewgame",
    "",
    "   ",
    "stop",
    "setoption name Hash value 16",
    "xyzzy 1 2",
    "position startpos",
    "position startpos moves e2e4",
    "go depth 1",
    "isready\r",
    "quit",
];

/// Lines the engine cannot understand (or need not act on): the other command words of the UCI
/// protocol bare and with arguments, a tab-indented command (still a command after
/// trimming), a line that is not valid UTF-8 (written `\\xFC` here, sent as the byte 0xFC), a very
/// long line. Indexed after ALPHABET (symbol i + ALPHABET.len()).
pub const UNKNOWN: &[&str] = &[
    "debug",
    "debug on",
    "debug off",
    "register",
    "register later",
    "ponderhit",
    "setoption",
    "position",
    "\t",
    "\tisready",
    "setoption name UCI_Opponent value none none human J\\xFCrgen",
    "\\xFC\\xFF",
    "LONGLINE",
];

/// Incomplete or scrambled forms of the commands the engine does handle (never of `go`, which
/// would start a search without a limit): lines it cannot act on and has to ignore. Indexed after
/// UNKNOWN.
pub const MALFORMED: &[&str] = &[
    "setoption name",
    "setoption value 64 name Hash",
    "setoption name Hash value",
    "setoption name Clear Hash",
    "setoption Hash 64",
    "position fen",
    "position fen 8/8 w",
    "position moves",
];

/// Unknown lines whose first word begins with (or extends) a command word: a dispatcher that looks
/// at a prefix of the line, not at its first word, takes them for the command. Indexed after
/// MALFORMED.
pub const NEAR: &[&str] = &["goto depth 1", "gone", "go2 depth 1", "positions startpos moves e2e4", "positionstartpos", "ucii", "isreadyx", "ucinewgames", "quitx", "stopgo"];

/// Searches that finish long before their time budget is used (and one that uses it up): what a
/// search leaves running when it returns early must not keep the process alive after its input
/// ends. Indexed after NEAR.
pub const TIMED: &[&str] = &["go depth 1 movetime 100000", "go depth 2 wtime 600000 btime 600000 winc 0 binc 0", "go movetime 25", "go depth 1 movetime 18446744073709551615"];

pub fn sym(i: usize) -> &'static str {
    let mut i = i;
    for list in [ALPHABET, UNKNOWN, MALFORMED, NEAR, TIMED] {
        if i < list.len() {
            return list[i];
        }
        i -= list.len();
    }
    panic!("symbol index out of range")
}

static LONG: std::sync::OnceLock<String> = std::sync::OnceLock::new();

/// The text of a line as the reference sees it (LONGLINE expanded)
fn expand(l: &str) -> &str {
    if l == "LONGLINE" {
        LONG.get_or_init(|| "x".repeat(20_000) + " y z")
    } else {
        l
    }
}

/// Only separates 'exits' from 'never exits'; generous so that a busy machine is never a verdict
pub const HORIZON_S: u64 = 20;

/// Expected output grammar for one input, checked by consuming the engine's stdout in order.
/// Returns Err(text) on the first disagreement.
pub fn judge(lines: &[&str], r: &RunResult) -> Result<(), String> {
    if r.timed_out {
        return Err(format!("the process was still running {} s after its input ended (horizon; it was killed)", HORIZON_S));
    }
    if r.signal.is_some() || r.exit_code != Some(0) {
        return Err(format!("exit status {:?} signal {:?}, expected a clean exit 0", r.exit_code, r.signal));
    }
    // `info string ...` may be sent at any time by an engine that has something to say (e.g. one
    // that implements `debug on`); it is never an answer to anything and is not judged
    let out: Vec<&str> = r.stdout.lines().map(|l| l.trim_end()).filter(|l| !l.starts_with("info string")).collect();
    let mut i = 0usize;
    let mut pos = Pos::start();
    for (n, raw) in lines.iter().enumerate() {
        let cmd = raw.trim();
        let toks: Vec<&str> = cmd.split_whitespace().collect();
        match toks.first().copied() {
            Some("quit") => break,
            Some("uci") => {
                let mut saw_name = false;
                loop {
                    match out.get(i) {
                        Some(l) if l.starts_with("id ") || l.starts_with("option ") => {
                            if l.starts_with("id name ") {
                                saw_name = true;
                            }
                            i += 1;
                        }
                        Some(l) if *l == "uciok" => {
                            i += 1;
                            break;
                        }
                        other => return Err(format!("line {} (uci): expected id lines then uciok, got {:?}", n + 1, other)),
                    }
                }
                if !saw_name {
                    return Err(format!("line {} (uci): no `id name` line before uciok", n + 1));
                }
            }
            Some("isready") => {
                if out.get(i) != Some(&"readyok") {
                    return Err(format!("line {} (isready): expected readyok, got {:?}", n + 1, out.get(i)));
                }
                i += 1;
            }
            Some("ucinewgame") => pos = Pos::start(),
            // (an incomplete position command sets nothing up: the position stays as it was)
            Some("position") if toks.get(1) == Some(&"startpos") => {
                pos = Pos::start();
                if let Some(k) = toks.iter().position(|t| *t == "moves") {
                    for t in &toks[k + 1..] {
                        pos = pos.make(Mv::parse(t).unwrap());
                    }
                }
            }
            Some("go") => {
                while out.get(i).map(|l| l.starts_with("info ")).unwrap_or(false) {
                    i += 1;
                }
                match out.get(i) {
                    Some(l) if l.starts_with("bestmove ") => {
                        let mv = l.split_whitespace().nth(1).unwrap_or("");
                        let legal = pos.legal_moves();
                        match Mv::parse(mv) {
                            Some(m) if legal.contains(&m) => {}
                            _ => return Err(format!("line {} (go): {:?} is not a legal move in {:?}", n + 1, l, pos.fen4())),
                        }
                        i += 1;
                    }
                    other => return Err(format!("line {} (go): expected a bestmove line, got {:?}", n + 1, other)),
                }
            }
            _ => {} // unknown or blank: no output
        }
    }
    if i != out.len() {
        return Err(format!("unexpected extra output {:?}", &out[i..out.len().min(i + 3)]));
    }
    Ok(())
}

pub fn build_input(lines: &[&str], final_newline: bool) -> Vec<u8> {
    let mut out: Vec<u8> = Vec::new();
    for (i, l) in lines.iter().enumerate() {
        if i > 0 {
            out.push(b'\n');
        }
        // `\xHH` in a symbol stands for the raw byte
        let t = expand(l);
        let b = t.as_bytes();
        let mut j = 0;
        while j < b.len() {
            if b[j] == b'\\' && j + 3 < b.len() && b[j + 1] == b'x' {
                if let Ok(v) = u8::from_str_radix(&t[j + 2..j + 4], 16) {
                    out.push(v);
                    j += 4;
                    continue;
                }
            }
            out.push(b[j]);
            j += 1;
        }
    }
    if final_newline && !lines.is_empty() {
        out.push(b'\n');
    }
    out
}

fn escape(lines: &[&str]) -> String {
    lines.iter().map(|l| l.replace('\r', "\\r")).collect::<Vec<_>>().join("\\n")
}

pub fn check_one(rep: &Report, exe: &str, which: &str, lines: &[&str], final_newline: bool) -> Option<bool> {
    let input = build_input(lines, final_newline);
    let o = Opts { exe, node_clock: None, zseed: None, horizon: Duration::from_secs(HORIZON_S) };
    let r = match blackbox::run(&o, &input) {
        Ok(r) => r,
        Err(e) => {
            eprintln!("MACHINERY ERROR: {}", e);
            std::process::exit(2);
        }
    };
    match judge(lines, &r) {
        Ok(()) => Some(true),
        Err(text) => {
            // signature by shape: which binary does not matter, nor does the exact tail after the failing prefix
            rep.violation(
                format!("C16 input={}{}", escape(lines), if final_newline { "\\n" } else { "<no newline>" }),
                format!("engine ({}) given {:?} then end of input: {}", which, escape(lines), text),
                vec!["c16-one".to_string(), "--input".into(), escape(lines), "--final-newline".into(), if final_newline { "yes".into() } else { "no".into() }, "--which".into(), which.to_string()],
                J::obj().set("stdout", r.stdout.clone()).set("exit_code", r.exit_code).set("timed_out", r.timed_out),
            );
            Some(false)
        }
    }
}

fn sequences(alphabet_len: usize, l: usize) -> Vec<Vec<usize>> {
    let mut out: Vec<Vec<usize>> = vec![vec![]];
    let mut layer: Vec<Vec<usize>> = vec![vec![]];
    for _ in 0..l {
        let mut next = Vec::new();
        for s in &layer {
            for a in 0..alphabet_len {
                let mut t = s.clone();
                t.push(a);
                next.push(t);
            }
        }
        out.extend(next.iter().cloned());
        layer = next;
    }
    out
}

pub fn run(tier: &str, seed: u64, out: &str, engine_hooks: &str, engine_plain: &str) {
    let rep = Report::new("C16", tier, seed);
    let thorough = tier == "thorough";
    let runs = AtomicU64::new(0);
    let with_quit = AtomicU64::new(0);
    let with_go = AtomicU64::new(0);
    let mut parts = Vec::new();
    // The core alphabet drops symbols whose handling is the same code path as a kept one
    // (blank = empty line; stop / setoption = unknown command; position without moves).
    let core: Vec<usize> = ALPHABET.iter().enumerate().filter(|(_, a)| !matches!(**a, "   " | "stop" | "setoption name Hash value 16" | "position startpos")).map(|(i, _)| i).collect();
    let full: Vec<usize> = (0..ALPHABET.len()).collect();
    // (binary, label, alphabet, max length, final-newline variants)
    let plan: Vec<(&str, &str, &Vec<usize>, usize, Vec<bool>)> = if thorough {
        vec![
            (engine_plain, "hooks off", &full, 4, vec![true, false]),
            (engine_plain, "hooks off", &core, 5, vec![true]),
            (engine_hooks, "hooks on", &full, 4, vec![true, false]),
        ]
    } else {
        vec![
            (engine_plain, "hooks off", &full, 3, vec![true, false]),
            (engine_plain, "hooks off", &core, 4, vec![true]),
            (engine_hooks, "hooks on", &full, 3, vec![true, false]),
        ]
    };
    // unknown-line sweep: every unknown line together with the commands that must still be answered
    let mut ext: Vec<usize> = (ALPHABET.len()..ALPHABET.len() + UNKNOWN.len()).collect();
    for (i, a) in ALPHABET.iter().enumerate() {
        if matches!(*a, "uci" | "isready" | "go depth 1" | "quit") {
            ext.push(i);
        }
    }
    let mut mal: Vec<usize> = (ALPHABET.len() + UNKNOWN.len()..ALPHABET.len() + UNKNOWN.len() + MALFORMED.len()).collect();
    for (i, a) in ALPHABET.iter().enumerate() {
        if matches!(*a, "uci" | "isready" | "go depth 1" | "quit") {
            mal.push(i);
        }
    }
    let base = ALPHABET.len() + UNKNOWN.len() + MALFORMED.len();
    let mut near: Vec<usize> = (base..base + NEAR.len()).collect();
    let mut timed: Vec<usize> = (base + NEAR.len()..base + NEAR.len() + TIMED.len()).collect();
    for (i, a) in ALPHABET.iter().enumerate() {
        if matches!(*a, "uci" | "isready" | "go depth 1" | "quit") {
            near.push(i);
        }
        if matches!(*a, "uci" | "isready" | "position startpos moves e2e4" | "ucinewgame" | "quit") {
            timed.push(i);
        }
    }
    let mut plan = plan;
    plan.push((engine_plain, "hooks off", &near, if thorough { 4 } else { 3 }, vec![true]));
    plan.push((engine_plain, "hooks off", &near, 2, vec![false]));
    plan.push((engine_plain, "hooks off", &timed, if thorough { 4 } else { 3 }, vec![true, false]));
    plan.push((engine_plain, "hooks off", &ext, if thorough { 4 } else { 3 }, vec![true]));
    plan.push((engine_plain, "hooks off", &ext, 2, vec![false]));
    plan.push((engine_plain, "hooks off", &mal, if thorough { 4 } else { 3 }, vec![true]));
    let mut samples = Vec::new();
    for (exe, label, alpha, l, variants) in plan {
        if rep.saturated() {
            break;
        }
        let seqs: Vec<Vec<usize>> = sequences(alpha.len(), l).into_iter().map(|s| s.into_iter().map(|i| alpha[i]).collect()).collect();
        let jobs: Vec<(&Vec<usize>, bool)> = seqs.iter().flat_map(|s| variants.iter().map(move |nl| (s, *nl))).collect();
        let res: Vec<Option<bool>> = par_map(&jobs, |(s, nl)| {
            if rep.saturated() {
                return None;
            }
            let lines: Vec<&str> = s.iter().map(|i| sym(*i)).collect();
            runs.fetch_add(1, Ordering::Relaxed);
            if lines.iter().any(|l| l.trim() == "quit") {
                with_quit.fetch_add(1, Ordering::Relaxed);
            }
            if lines.iter().any(|l| l.starts_with("go")) {
                with_go.fetch_add(1, Ordering::Relaxed);
            }
            check_one(&rep, exe, label, &lines, *nl)
        });
        let ok = res.iter().filter(|r| **r == Some(true)).count();
        eprintln!("[C16] {} length <= {} over {} symbols, newline variants {:?}: {} runs, {} as expected ({:.1}s)", label, l, alpha.len(), variants, jobs.len(), ok, rep.elapsed());
        if let Some((s, nl)) = jobs.iter().rev().find(|(s, _)| s.len() == l && s.contains(&10) && s.contains(&0)) {
            samples.push(J::obj().set("binary", label).set("input", escape(&s.iter().map(|i| sym(*i)).collect::<Vec<_>>())).set("final_newline", *nl));
        }
        parts.push(
            J::obj()
                .set("binary", label)
                .set("alphabet", alpha.iter().map(|i| sym(*i).replace('\r', "\\r")).collect::<Vec<_>>())
                .set("max_lines", l)
                .set("final_newline_variants", variants.iter().map(|v| if *v { "with" } else { "without" }).collect::<Vec<_>>())
                .set("runs", jobs.len())
                .set("as_expected", ok),
        );
    }
    let n = runs.load(Ordering::Relaxed);
    let cov = J::obj()
        .set("states", n)
        .set("transitions", n)
        .set("traces_validated_against_impl", n)
        .set("evaluations", n)
        .set("distinct_nontrivial", n)
        .set("rule", "a case = one complete input stream (sequence of lines over the alphabet, with or without a final newline) given to a fresh engine process, then end of input; all cases are distinct")
        .set("alphabet", ALPHABET.iter().map(|a| a.replace('\r', "\\r")).collect::<Vec<_>>())
        .set("unknown_lines", UNKNOWN.iter().map(|a| a.to_string()).collect::<Vec<_>>())
        .set("incomplete_or_scrambled_commands", MALFORMED.iter().map(|a| a.to_string()).collect::<Vec<_>>())
        .set("unknown_lines_that_begin_like_a_command", NEAR.iter().map(|a| a.to_string()).collect::<Vec<_>>())
        .set("searches_that_finish_before_their_budget", TIMED.iter().map(|a| a.to_string()).collect::<Vec<_>>())
        .set("runs_containing_quit", with_quit.load(Ordering::Relaxed))
        .set("runs_containing_go", with_go.load(Ordering::Relaxed))
        .set("termination_horizon_s", HORIZON_S)
        .set("sweeps", J::Arr(parts))
        .set("samples", J::Arr(samples))
        .set("exhaustive", true)
        .set("bound", "every line sequence up to the listed length over the alphabet");
    rep.finish(
        "model_checking",
        cov,
        vec![
            format!("'terminates' is decided with a horizon of {} s after the input ended", HORIZON_S),
            "the reference accepts any block of `id ...` / `option ...` lines (with an `id name`) before uciok, and any number of info lines before bestmove".into(),
        ],
        out,
    );
}

pub fn replay(input: &str, final_newline: bool, exe: &str, which: &str) -> i32 {
    let rep = Report::new("C16", "quick", 0);
    let unesc = input.replace("\\r", "\r");
    let lines: Vec<&str> = if unesc.is_empty() { vec![] } else { unesc.split("\\n").collect() };
    check_one(&rep, exe, which, &lines, final_newline);
    let v = rep.violations.lock().unwrap();
    for x in v.iter() {
        println!("REPLAY-VIOLATION {} :: {}", x.sig, x.text);
    }
    if v.is_empty() {
        println!("REPLAY-OK C16 {:?}", input);
        0
    } else {
        1
    }
}
