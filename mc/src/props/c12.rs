//! C12: thinking time comes from the mover's own clock and fits in it.
//! Complete grid of clock values x every order of the present token pairs x presence subsets
//! x side to move, through the real `go` parser with the search in dry-run.

use crate::eng::guard;
use crate::json::J;
use crate::par::par_map_init;
use crate::report::Report;
use crate::uci::Flounder;
use std::collections::HashMap;

const TIMES: [u64; 19] = [0, 1, 2, 49, 50, 51, 999, 1000, 4999, 5000, 5001, 5024, 5025, 5026, 10_000, 60_000, 600_000, 3_600_000, 86_400_000];
const INCS: [u64; 6] = [0, 1, 100, 1000, 5000, 60_000];

fn permutations(items: &[usize]) -> Vec<Vec<usize>> {
    if items.len() <= 1 {
        return vec![items.to_vec()];
    }
    let mut out = Vec::new();
    for i in 0..items.len() {
        let mut rest = items.to_vec();
        let x = rest.remove(i);
        for mut p in permutations(&rest) {
            p.insert(0, x);
            out.push(p);
        }
    }
    out
}

/// Budget the engine would use for this go line (None = no time limit), via the dry-run hook.
fn budget(fl: &mut Flounder, line: &str) -> Result<Option<u128>, String> {
    guard(|| {
        fl.verif_handle_command(line);
        crate::search::verif::last_go().map(|(_, t)| t.map(|d| d.as_millis()))
    })?
    .ok_or_else(|| "go did not reach the search".to_string())
}

pub fn check_line(fl: &mut Flounder, white_to_move: bool, line: &str, own_time: u64, own_inc: u64, baseline: &mut HashMap<(bool, u64, u64), u128>, rep: &Report) -> bool {
    check_line_variant(fl, white_to_move, line, own_time, own_inc, 0, &mut HashMap::new(), baseline, rep)
}

/// As `check_line`; lines of different `variant` (token layout, stage of the session) are not
/// required to agree with each other, only with lines of the same variant and own clock.
pub fn check_line_variant(fl: &mut Flounder, white_to_move: bool, line: &str, own_time: u64, own_inc: u64, variant: u64, vbase: &mut HashMap<(bool, u64, u64, u64), u128>, baseline: &mut HashMap<(bool, u64, u64), u128>, rep: &Report) -> bool {
    let sig_base = format!("C12 stm={} own_time={} own_inc={}", if white_to_move { "w" } else { "b" }, own_time, own_inc);
    let args = vec!["c12-one".to_string(), "--stm".into(), if white_to_move { "w".into() } else { "b".into() }, "--line".into(), line.to_string(), "--own-time".into(), own_time.to_string(), "--own-inc".into(), own_inc.to_string()];
    crate::crumb::set_owned(&args);
    match budget(fl, line) {
        Err(e) => {
            rep.violation(format!("{} panic", sig_base), format!("{:?}: {}", line, e), args, J::Null);
            false
        }
        Ok(None) => {
            rep.violation(format!("{} nolimit", sig_base), format!("{:?} ({} to move): no time limit was set although the mover's clock was given", line, if white_to_move { "white" } else { "black" }), args, J::Null);
            false
        }
        Ok(Some(b)) => {
            let mut ok = true;
            if b > own_time as u128 || (own_time > 0 && b >= own_time as u128) {
                rep.violation(
                    format!("{} exceeds", sig_base),
                    format!("{:?} ({} to move): budget {} ms does not fit in the mover's remaining {} ms", line, if white_to_move { "white" } else { "black" }, b, own_time),
                    args.clone(),
                    J::Null,
                );
                ok = false;
            }
            let key = (white_to_move, own_time, own_inc);
            let prev = if variant == 0 { baseline.get(&key).copied() } else { vbase.get(&(white_to_move, own_time, own_inc, variant)).copied() };
            match prev {
                None => {
                    if variant == 0 {
                        baseline.insert(key, b);
                    } else {
                        vbase.insert((white_to_move, own_time, own_inc, variant), b);
                    }
                }
                Some(prev) if prev != b => {
                    rep.violation(
                        format!("{} depends-on-opponent-or-order", sig_base),
                        format!("{:?} ({} to move): budget {} ms, but another line with the same own clock ({} ms + {} ms){} gave {} ms", line, if white_to_move { "white" } else { "black" }, b, own_time, own_inc, if variant == 0 { "" } else { " and the same token layout / session stage" }, prev),
                        args,
                        J::Null,
                    );
                    ok = false;
                }
                _ => {}
            }
            ok
        }
    }
}

/// Middlegames in which deeper iterations change their mind (hanging pieces, mating attacks):
/// that is where a search is tempted to take more time than it was given.
pub const SPEND_POSITIONS: &[&str] = &[
    "r3k2r/p1ppqpb1/bn2pnp1/3PN3/1p2P3/2N2Q1p/PPPBBPPP/R3K2R w KQkq - 0 1",
    "r1bq1rk1/ppp2ppp/2np1n2/2b1p3/2B1P3/2PP1N2/PP3PPP/RNBQ1RK1 w - - 0 7",
    "2r1nrk1/p4p1p/1p2p1pQ/nPqbRN2/8/P2B4/1BP2PPP/3R2K1 w - - 0 1",
    "r1b1q1r1/ppp3kp/1bnp4/4p1B1/3PP3/2P2Q2/PP3PPP/RN3RK1 w - - 0 1",
    "rn1r2k1/ppp2ppp/3q1n2/4b1B1/4P1b1/1BP1Q3/PP3PPP/RN2K1NR b KQ - 0 1",
    "r4rk1/1pp1qppp/p1np1n2/2b1p1B1/2B1P1b1/P1NP1N2/1PP1QPPP/R4RK1 w - - 0 10",
    "5r2/pp3k2/5r2/q1p2Q2/3P4/6R1/PPP2PP1/1K6 w - - 0 1",
    "6k1/1p1b3p/2pp2p1/p7/2Pb2Pq/1P1PpK2/P1N3RP/1RQ5 b - - 0 1",
    "r2q1rk1/pP1p2pp/Q4n2/bbp1p3/Np6/1B3NBn/pPPP1PPP/R3K2R b KQ - 0 1",
    "rnbq1k1r/pp1Pbppp/2p5/8/2B5/8/PPP1NnPP/RNBQK2R w KQ - 1 8",
    "r3r1k1/pp3pbp/1qp3p1/2B5/2BP2b1/Q1n2N2/P4PPP/3R1K1R w - - 0 1",
    "r1bqk2r/pppp1ppp/2n2n2/2b1p3/2B1P3/3P1N2/PPP2PPP/RNBQK2R w KQkq - 0 5",
    "r2q1rk1/ppp2ppp/2n1bn2/2bpp3/4P3/2PP1NP1/PP1N1PBP/R1BQ1RK1 w - - 0 9",
    "2kr3r/ppp2ppp/2n1b3/2b1P3/5Bn1/2N2N2/PPP1B1PP/R4RK1 w - - 0 12",
    "8/5pk1/6p1/R7/5P2/6P1/r4K2/8 w - - 0 40",
    // positions with mating attacks and hanging pieces (the FENs of the repository's mate puzzles)
    "1k1r4/pp1q1B1p/3bQp2/2p2r2/P6P/2BnP3/1P6/5RKR b - - 0 1",
    "1k2r3/pP3pp1/8/3P1B1p/5q2/N1P2b2/PP3Pp1/R5K1 b - - 0 1",
    "3r1r2/4k3/R7/3Q4/8/8/8/6K1 w - - 0 1",
    "r3k3/p1R2Qp1/2pq4/4p3/2P4P/3BP3/P4P1P/5bK1 b q - 0 1",
    "rR6/5k2/2p3q1/4Qpb1/2PB1Pb1/4P3/r5R1/6K1 w - - 0 1",
    "rn3rk1/p5pp/2p5/3Ppb2/2q5/1Q6/PPPB2PP/R3K1NR b KQ - 0 1",
    "4r1k1/5ppp/8/7r/1n6/8/R4PPP/3Q2K1 w - - 0 1",
    "r5k1/5ppp/8/8/8/8/1q3PPP/R5K1 w - - 0 1",
    "rnbqkbnr/pppppppp/8/8/8/8/PPPPPPPP/RNBQKBNR w KQkq - 0 1",
    "rnbqkbnr/pppp1ppp/8/4p3/4P3/8/PPPP1PPP/RNBQKBNR w KQkq - 0 2",
    "r1bqkbnr/pppp1ppp/2n5/4p3/4P3/5N2/PPPP1PPP/RNBQKB1R w KQkq - 2 3",
    "8/2p5/3p4/KP5r/1R3p1k/8/4P1P1/8 w - - 0 1",
    "8/8/4k3/8/8/4K3/4P3/8 w - - 0 1",
];

/// Second budget of a pair of go commands on a fresh engine (dry run); None after a violation.
fn pair_budget(rep: &Report, stm: bool, setup: &str, first: &str, second: &str, own_time: u64, own_inc: u64) -> Option<u128> {
    let args = vec!["c12-pair".to_string(), "--stm".into(), if stm { "w".into() } else { "b".into() }, "--first".into(), first.to_string(), "--second".into(), second.to_string(), "--own-time".into(), own_time.to_string(), "--own-inc".into(), own_inc.to_string()];
    crate::crumb::set_owned(&args);
    let r = guard(|| {
        let mut fl = Flounder::new();
        crate::search::verif::set_dry_run(true);
        fl.verif_handle_command(setup);
        fl.verif_handle_command(first);
        fl.verif_handle_command(second);
        crate::search::verif::last_go().map(|(_, t)| t.map(|d| d.as_millis()))
    });
    let sig = format!("C12 pair stm={} second={:?} after {:?}", if stm { "w" } else { "b" }, second, first);
    match r {
        Err(e) => {
            rep.violation(format!("{} panic", sig), format!("{:?} then {:?}: {}", first, second, e), args, J::Null);
            None
        }
        Ok(None) | Ok(Some(None)) => {
            rep.violation(format!("{} nolimit", sig), format!("{:?} then {:?}: the second go set no time limit although the mover's clock was given", first, second), args, J::Null);
            None
        }
        Ok(Some(Some(b))) => {
            if b > own_time as u128 || (own_time > 0 && b >= own_time as u128) {
                rep.violation(
                    format!("{} exceeds", sig),
                    format!("{:?} then {:?} ({} to move): the second budget {} ms does not fit in the mover's remaining {} ms", first, second, if stm { "white" } else { "black" }, b, own_time),
                    args,
                    J::Null,
                );
                return None;
            }
            Some(b)
        }
    }
}

/// Options the engine advertises in its answer to `uci` (name, type, default, min, max, vars).
pub struct UciOption {
    pub name: String,
    pub kind: String,
    pub default: Option<String>,
    pub min: Option<i64>,
    pub max: Option<i64>,
    pub vars: Vec<String>,
}

pub fn parse_options(uci_reply: &str) -> Vec<UciOption> {
    let mut out = Vec::new();
    for line in uci_reply.lines() {
        let toks: Vec<&str> = line.split_whitespace().collect();
        if toks.len() < 3 || toks[0] != "option" || toks[1] != "name" {
            continue;
        }
        let keys = ["type", "default", "min", "max", "var"];
        let mut name = Vec::new();
        let mut i = 2;
        while i < toks.len() && toks[i] != "type" {
            name.push(toks[i]);
            i += 1;
        }
        let mut o = UciOption { name: name.join(" "), kind: String::new(), default: None, min: None, max: None, vars: Vec::new() };
        while i < toks.len() {
            let k = toks[i];
            let mut v = Vec::new();
            i += 1;
            while i < toks.len() && !keys.contains(&toks[i]) {
                v.push(toks[i]);
                i += 1;
            }
            let v = v.join(" ");
            match k {
                "type" => o.kind = v,
                "default" => o.default = Some(v),
                "min" => o.min = v.parse().ok(),
                "max" => o.max = v.parse().ok(),
                "var" => o.vars.push(v),
                _ => {}
            }
        }
        out.push(o);
    }
    out
}

/// The setoption lines tried for one advertised option: the ends of its range, its default, the
/// neighbours of the ends, the midpoint, round numbers inside the range; both values of a check;
/// every var of a combo; a button pressed.
pub fn option_lines(o: &UciOption) -> Vec<String> {
    let mut vals: Vec<String> = Vec::new();
    match o.kind.as_str() {
        "spin" => {
            let lo = o.min.unwrap_or(0);
            let hi = o.max.unwrap_or(lo.max(1000));
            let mut c: Vec<i64> = vec![lo, hi, lo + 1, hi - 1, lo + (hi - lo) / 2];
            if let Some(d) = o.default.as_ref().and_then(|d| d.parse::<i64>().ok()) {
                c.extend([d, d * 2, d * 3, d / 2, d + 1, d - 1]);
            }
            c.extend([0, 1, 10, 50, 100, 150, 200, 300, 500, 1000, 5000, 10000, 60000]);
            c.retain(|v| *v >= lo && *v <= hi);
            c.sort();
            c.dedup();
            vals = c.into_iter().map(|v| v.to_string()).collect();
        }
        "check" => vals = vec!["true".into(), "false".into()],
        "combo" => vals = o.vars.clone(),
        "string" => vals = vec!["".into(), "x".into(), "100".into()],
        "button" => return vec![format!("setoption name {}", o.name)],
        _ => {}
    }
    vals.into_iter().map(|v| format!("setoption name {} value {}", o.name, v)).collect()
}

/// Option names GUIs send by habit whether or not the engine advertises them (an engine must
/// ignore what it does not know; one that knows them without saying so is still bound by the
/// property).
pub const HABITUAL_OPTIONS: &[&str] = &["Hash", "Threads", "Ponder", "MultiPV", "Move Overhead", "Slow Mover", "Minimum Thinking Time", "nodestime", "UCI_AnalyseMode", "UCI_LimitStrength", "UCI_Elo", "Contempt", "Skill Level", "OwnBook", "Clear Hash"];
pub const HABITUAL_VALUES: &[&str] = &["0", "1", "10", "100", "200", "300", "1000", "5000", "true", "false"];

/// One session on a fresh engine (dry run): the commands in order (they contain the position
/// command), then the same clock-based go with two different opponent clocks, each on its own
/// fresh engine. Both budgets must fit the mover's clock and be equal. Returns go lines run.
fn session_case(rep: &Report, stm: bool, cmds: &[String], own_time: u64, own_inc: u64) -> u64 {
    let args = vec!["c12-session".to_string(), "--stm".into(), if stm { "w".into() } else { "b".into() }, "--cmds".into(), cmds.join(";"), "--own-time".into(), own_time.to_string(), "--own-inc".into(), own_inc.to_string()];
    crate::crumb::set_owned(&args);
    let sig = format!("C12 session stm={} cmds={:?} own_time={} own_inc={}", if stm { "w" } else { "b" }, cmds.join(";"), own_time, own_inc);
    let mut budgets = Vec::new();
    for (opp_time, opp_inc) in [(0u64, 0u64), (3_600_000u64, 7u64)] {
        let vals = if stm { [own_time, opp_time, own_inc, opp_inc] } else { [opp_time, own_time, opp_inc, own_inc] };
        let go = format!("go wtime {} btime {} winc {} binc {}", vals[0], vals[1], vals[2], vals[3]);
        let r = guard(|| {
            let mut fl = Flounder::new();
            crate::search::verif::set_dry_run(true);
            for c in cmds {
                fl.verif_handle_command(c);
            }
            fl.verif_handle_command(&go);
            crate::search::verif::last_go().map(|(_, t)| t.map(|d| d.as_millis()))
        });
        match r {
            Err(e) => {
                rep.violation(format!("{} panic", sig), format!("{:?} then {:?}: {}", cmds, go, e), args.clone(), J::Null);
                return 1;
            }
            Ok(None) | Ok(Some(None)) => {
                rep.violation(format!("{} nolimit", sig), format!("{:?} then {:?}: no time limit was set although the mover's clock was given", cmds, go), args.clone(), J::Null);
                return 1;
            }
            Ok(Some(Some(b))) => {
                if b > own_time as u128 || (own_time > 0 && b >= own_time as u128) {
                    rep.violation(format!("{} exceeds", sig), format!("{:?} then {:?} ({} to move): budget {} ms does not fit in the mover's remaining {} ms", cmds, go, if stm { "white" } else { "black" }, b, own_time), args.clone(), J::Null);
                    return 1;
                }
                budgets.push(b);
            }
        }
    }
    if budgets.len() == 2 && budgets[0] != budgets[1] {
        rep.violation(format!("{} depends-on-opponent", sig), format!("{:?} then a go with own clock {} ms + {} ms: budget {} ms with the opponent at 0 ms, {} ms with the opponent at 3 600 000 ms + 7 ms", cmds, own_time, own_inc, budgets[0], budgets[1]), args, J::Null);
    }
    2
}

pub fn replay_session(stm: &str, cmds: &str, own_time: u64, own_inc: u64) -> i32 {
    let rep = Report::new("C12", "quick", 0);
    let cmds: Vec<String> = cmds.split(';').map(|c| c.to_string()).collect();
    session_case(&rep, stm == "w", &cmds, own_time, own_inc);
    let v = rep.violations.lock().unwrap();
    for x in v.iter() {
        println!("REPLAY-VIOLATION {} :: {}", x.sig, x.text);
    }
    if v.is_empty() {
        println!("REPLAY-OK C12 session {:?}", cmds);
        0
    } else {
        1
    }
}

/// Own clocks tried in every option session: around the reserve, with increments that dominate.
const SESSION_CLOCKS: [(u64, u64); 16] = [(0, 0), (1, 0), (1, 1000), (100, 0), (100, 1000), (3000, 0), (3000, 1000), (3000, 1200), (3000, 3000), (5100, 0), (60_000, 0), (60_000, 1000), (60_000, 60_000), (600_000, 5000), (3_600_000, 0), (3_600_000, 60_000)];

/// Sessions in which something was said to the engine before the clock-based go: every value
/// (see option_lines) of every option it advertises, every habitual option with round values,
/// each before the position command, after it, and before a ucinewgame; pairs of advertised
/// options. Returns (go lines, advertised options, setoption lines tried).
fn option_part(rep: &Report, engine: Option<&str>, thorough: bool) -> (u64, Vec<String>, u64) {
    let mut advertised: Vec<UciOption> = Vec::new();
    if let Some(exe) = engine {
        let o = crate::blackbox::Opts { exe, node_clock: None, zseed: None, horizon: std::time::Duration::from_secs(20) };
        match crate::blackbox::run(&o, b"uci\nquit\n") {
            Ok(r) => advertised = parse_options(&r.stdout),
            Err(e) => {
                eprintln!("MACHINERY ERROR: cannot ask the engine for its options: {}", e);
                std::process::exit(2);
            }
        }
    }
    let mut lines: Vec<String> = Vec::new();
    let mut adv_lines: Vec<Vec<String>> = Vec::new();
    for o in &advertised {
        let l = option_lines(o);
        lines.extend(l.iter().cloned());
        adv_lines.push(l);
    }
    for n in HABITUAL_OPTIONS {
        if advertised.iter().any(|o| o.name.eq_ignore_ascii_case(n)) {
            continue;
        }
        for v in HABITUAL_VALUES {
            lines.push(format!("setoption name {} value {}", n, v));
        }
        lines.push(format!("setoption name {}", n));
    }
    // sessions: (commands before the go, with the position command placed)
    let mut sessions: Vec<(bool, Vec<String>)> = Vec::new();
    for stm in [true, false] {
        let pos = if stm { "position startpos" } else { "position startpos moves e2e4" }.to_string();
        for l in &lines {
            sessions.push((stm, vec![l.clone(), pos.clone()]));
            sessions.push((stm, vec![pos.clone(), l.clone()]));
            sessions.push((stm, vec![l.clone(), "ucinewgame".into(), pos.clone()]));
            sessions.push((stm, vec!["uci".into(), l.clone(), "isready".into(), "ucinewgame".into(), pos.clone(), "isready".into()]));
        }
        // two advertised options together (their effects may only be harmless together)
        for (i, a) in adv_lines.iter().enumerate() {
            for b in adv_lines.iter().skip(i + 1) {
                for la in a {
                    for lb in b {
                        sessions.push((stm, vec![la.clone(), lb.clone(), pos.clone()]));
                    }
                }
            }
        }
    }
    let clocks: Vec<(u64, u64)> = if thorough {
        let mut c = SESSION_CLOCKS.to_vec();
        for &t in &TIMES {
            for &i in INCS.iter().chain([t / 2, t, t.saturating_mul(3)].iter()) {
                if !c.contains(&(t, i)) {
                    c.push((t, i));
                }
            }
        }
        c
    } else {
        SESSION_CLOCKS.to_vec()
    };
    // one engine per session walks all clocks (cheap); anything it shows is confirmed on fresh
    // engines by session_case, which is also the replay
    let res: Vec<u64> = crate::par::par_map(&sessions, |(stm, cmds)| {
        if rep.saturated() {
            return 0;
        }
        let mut n = 0u64;
        let mut suspicious: Vec<(u64, u64)> = Vec::new();
        let walk = guard(|| {
            let mut fl = Flounder::new();
            crate::search::verif::set_dry_run(true);
            for c in cmds {
                fl.verif_handle_command(c);
            }
            let mut sus = Vec::new();
            let mut cnt = 0u64;
            for &(t, i) in &clocks {
                let mut seen: Option<u128> = None;
                for (ot, oi) in [(0u64, 0u64), (3_600_000u64, 7u64)] {
                    let vals = if *stm { [t, ot, i, oi] } else { [ot, t, oi, i] };
                    fl.verif_handle_command(&format!("go wtime {} btime {} winc {} binc {}", vals[0], vals[1], vals[2], vals[3]));
                    cnt += 1;
                    let b = crate::search::verif::last_go().and_then(|(_, t)| t.map(|d| d.as_millis()));
                    let ok = match b {
                        None => false,
                        Some(b) => !(b > t as u128 || (t > 0 && b >= t as u128)) && seen.map(|s| s == b).unwrap_or(true),
                    };
                    if let Some(b) = b {
                        seen = Some(b);
                    }
                    if !ok && !sus.contains(&(t, i)) {
                        sus.push((t, i));
                    }
                }
            }
            (cnt, sus)
        });
        match walk {
            Ok((cnt, sus)) => {
                n += cnt;
                suspicious = sus;
            }
            Err(_) => suspicious = clocks.clone(), // a panic somewhere in the walk: find it case by case
        }
        for (t, i) in suspicious.into_iter().take(4) {
            let before = rep.violations.lock().unwrap().len();
            n += session_case(rep, *stm, cmds, t, i);
            if rep.violations.lock().unwrap().len() == before {
                // only the walk (one engine, earlier go commands) shows it
                rep.violation(
                    format!("C12 session-walk stm={} cmds={:?} own_time={} own_inc={}", if *stm { "w" } else { "b" }, cmds.join(";"), t, i),
                    format!("after {:?} and clock-based go commands over the own clocks {:?} in this order (each with the opponent at 0 ms and at 3 600 000 ms + 7 ms), the go with own clock {} ms + {} ms got a budget that does not fit or moves with the opponent's clock; the same go as the first of a fresh engine is fine", cmds, clocks, t, i),
                    vec![],
                    J::Null,
                );
            }
        }
        n
    });
    let names: Vec<String> = advertised.iter().map(|o| format!("{} ({})", o.name, o.kind)).collect();
    (res.iter().sum(), names, lines.len() as u64)
}

/// One real go under the node clock; returns the share of the clock spent (per mille).
fn spend_case(rep: &Report, fen: &str, t: u64, inc: u64) -> u64 {
    let white = fen.split_whitespace().nth(1) == Some("w");
    let go = format!("go wtime {t} btime {t} winc {i} binc {i}", t = t, i = inc);
    let args = vec!["c12-spend".to_string(), "--fen".into(), fen.to_string(), "--time".into(), t.to_string(), "--inc".into(), inc.to_string()];
    crate::crumb::set_owned(&args);
    let r = guard(|| {
        crate::timer::verif::set_node_clock(Some(1));
        crate::search::verif::set_dry_run(false);
        let mut fl = Flounder::new();
        fl.verif_handle_command(&format!("position fen {}", fen));
        fl.verif_handle_command(&go);
        fl.verif_searcher().verif_nodes()
    });
    let sig = format!("C12 spend fen={} time={} inc={}", fen, t, inc);
    match r {
        Err(e) => {
            rep.violation(format!("{} panic", sig), format!("{:?} then {:?}: {}", fen, go, e), args, J::Null);
            0
        }
        Ok(nodes) => {
            if nodes > t + crate_overrun() {
                rep.violation(
                    sig,
                    format!(
                        "{:?}, {:?} ({} to move) under the node clock (1 node = 1 ms): the engine answered after {} ms of its clock, but the mover had only {} ms left: it loses on time by its own allocation",
                        fen, go, if white { "white" } else { "black" }, nodes, t
                    ),
                    args,
                    J::obj().set("virtual_ms_spent", nodes).set("own_clock_ms", t),
                );
            }
            nodes * 1000 / t.max(1)
        }
    }
}

/// the same allowance C07 gives a search to notice its deadline
fn crate_overrun() -> u64 {
    2048
}

pub fn replay_pair(stm: &str, first: &str, second: &str, own_time: u64, own_inc: u64) -> i32 {
    let rep = Report::new("C12", "quick", 0);
    let white = stm == "w";
    let setup = if white { "position startpos" } else { "position startpos moves e2e4" };
    let b = pair_budget(&rep, white, setup, first, second, own_time, own_inc);
    // the opponent-dependence form: the same pair with the canonical opponent clocks
    if let Some(b) = b {
        let strip = |l: &str| -> String {
            let toks: Vec<&str> = l.split_whitespace().collect();
            let get = |k: &str| toks.iter().position(|t| *t == k).and_then(|i| toks.get(i + 1)).map(|x| x.to_string()).unwrap_or("0".into());
            let (ot, oi) = if white { (get("wtime"), get("winc")) } else { (get("btime"), get("binc")) };
            if white { format!("go wtime {} btime 1000 winc {} binc 0", ot, oi) } else { format!("go wtime 1000 btime {} winc 0 binc {}", ot, oi) }
        };
        if let Some(c) = pair_budget(&rep, white, setup, &strip(first), &strip(second), own_time, own_inc) {
            if c != b {
                println!("REPLAY-VIOLATION C12 pair: second budget {} ms, with other opponent clocks {} ms", b, c);
                return 1;
            }
        }
    }
    let v = rep.violations.lock().unwrap();
    for x in v.iter() {
        println!("REPLAY-VIOLATION {} :: {}", x.sig, x.text);
    }
    if v.is_empty() {
        println!("REPLAY-OK C12 pair {:?} then {:?}", first, second);
        0
    } else {
        1
    }
}

pub fn replay_spend(fen: &str, t: u64, inc: u64) -> i32 {
    let rep = Report::new("C12", "quick", 0);
    spend_case(&rep, fen, t, inc);
    let v = rep.violations.lock().unwrap();
    for x in v.iter() {
        println!("REPLAY-VIOLATION {} :: {}", x.sig, x.text);
    }
    if v.is_empty() {
        println!("REPLAY-OK C12 spend {} {} {}", fen, t, inc);
        0
    } else {
        1
    }
}

fn make_engine(white_to_move: bool) -> Flounder {
    let mut fl = Flounder::new();
    crate::search::verif::set_dry_run(true);
    if white_to_move {
        fl.verif_handle_command("position startpos");
    } else {
        fl.verif_handle_command("position startpos moves e2e4");
    }
    fl
}

pub fn run(tier: &str, seed: u64, out: &str, engine: Option<&str>) {
    let rep = Report::new("C12", tier, seed);
    let (opt_n, opt_names, opt_lines) = option_part(&rep, engine, tier == "thorough");
    eprintln!("[C12] option sessions: {} go lines, advertised options {:?}, {} setoption lines ({:.1}s)", opt_n, opt_names, opt_lines, rep.elapsed());
    let names = ["wtime", "btime", "winc", "binc"];
    // work unit = (side to move, own time index)
    let mut units = Vec::new();
    for stm in [true, false] {
        for ti in 0..TIMES.len() {
            units.push((stm, ti));
        }
    }
    let all4 = permutations(&[0, 1, 2, 3]);
    let results: Vec<(u64, u64, Vec<String>)> = par_map_init(
        &units,
        || (make_engine(true), make_engine(false)),
        |engines, &(stm, ti)| {
            crate::search::verif::set_dry_run(true);
            let fl = if stm { &mut engines.0 } else { &mut engines.1 };
            let mut baseline: HashMap<(bool, u64, u64), u128> = HashMap::new();
            let mut n = 0u64;
            let mut distinct = 0u64;
            let mut samples = Vec::new();
            let own_time = TIMES[ti];
            for &own_inc in &INCS {
                distinct += 1;
                for &opp_time in &TIMES {
                    for &opp_inc in &INCS {
                        if rep.saturated() {
                            return (n, distinct, samples);
                        }
                        let vals = if stm { [own_time, opp_time, own_inc, opp_inc] } else { [opp_time, own_time, opp_inc, own_inc] };
                        // all four pairs present, all 24 orders, with and without a leading depth
                        for perm in &all4 {
                            for lead in ["", "depth 5 "] {
                                let mut line = format!("go {}", lead);
                                for (j, &t) in perm.iter().enumerate() {
                                    if j > 0 {
                                        line.push(' ');
                                    }
                                    line.push_str(&format!("{} {}", names[t], vals[t]));
                                }
                                n += 1;
                                check_line(fl, stm, &line, own_time, own_inc, &mut baseline, &rep);
                                if samples.len() < 2 {
                                    samples.push(line);
                                }
                            }
                        }
                    }
                }
                // presence subsets that contain the mover's time, every order of the present pairs
                let own_t = if stm { 0 } else { 1 };
                let own_i = if stm { 2 } else { 3 };
                for mask in 0..16usize {
                    if mask & (1 << own_t) == 0 || mask == 15 {
                        continue;
                    }
                    let present: Vec<usize> = (0..4).filter(|t| mask & (1 << t) != 0).collect();
                    let eff_inc = if mask & (1 << own_i) != 0 { own_inc } else { 0 };
                    for &opp_time in &[0u64, 1000, 600_000] {
                        for &opp_inc in &[0u64, 1000, 60_000] {
                            let vals = if stm { [own_time, opp_time, own_inc, opp_inc] } else { [opp_time, own_time, opp_inc, own_inc] };
                            for perm in permutations(&present) {
                                let mut line = "go".to_string();
                                for &t in &perm {
                                    line.push_str(&format!(" {} {}", names[t], vals[t]));
                                }
                                n += 1;
                                check_line(fl, stm, &line, own_time, eff_inc, &mut baseline, &rep);
                                if samples.len() < 4 {
                                    samples.push(line);
                                }
                            }
                        }
                    }
                }
            }
            (n, distinct, samples)
        },
    );

    // ---- dense sweep: every own clock value of a range (step 1), so that no threshold between
    // grid points (reserve, caps, minimum thinking times, overheads) can hide; a few opponent
    // values and token orders per point
    let dense_to: u64 = if tier == "thorough" { 200_000 } else { 12_000 };
    let chunk: u64 = 500;
    let mut dunits: Vec<(bool, u64)> = Vec::new();
    for stm in [true, false] {
        let mut a = 0;
        while a <= dense_to {
            dunits.push((stm, a));
            a += chunk;
        }
    }
    let orders: [[usize; 4]; 4] = [[0, 1, 2, 3], [3, 2, 1, 0], [1, 0, 3, 2], [2, 3, 0, 1]];
    let dres: Vec<(u64, u64)> = par_map_init(
        &dunits,
        || (make_engine(true), make_engine(false)),
        |engines, &(stm, from)| {
            crate::search::verif::set_dry_run(true);
            let fl = if stm { &mut engines.0 } else { &mut engines.1 };
            let mut baseline: HashMap<(bool, u64, u64), u128> = HashMap::new();
            let mut n = 0u64;
            let mut distinct = 0u64;
            for own_time in from..(from + chunk).min(dense_to + 1) {
                let mut incs: Vec<u64> = vec![0, 1, 100, 1000, 60_000, own_time.saturating_sub(1), own_time, own_time + 1, own_time / 2];
                incs.sort();
                incs.dedup();
                for own_inc in incs {
                    distinct += 1;
                    for (opp_time, opp_inc) in [(0u64, 0u64), (7, 50_000), (3_600_000, 3)] {
                        let vals = if stm { [own_time, opp_time, own_inc, opp_inc] } else { [opp_time, own_time, opp_inc, own_inc] };
                        for perm in &orders {
                            if rep.saturated() {
                                return (n, distinct);
                            }
                            let mut line = "go".to_string();
                            for &t in perm {
                                line.push_str(&format!(" {} {}", names[t], vals[t]));
                            }
                            n += 1;
                            check_line(fl, stm, &line, own_time, own_inc, &mut baseline, &rep);
                        }
                    }
                }
            }
            (n, distinct)
        },
    );
    // ---- movestogo: the standard token in every slot between the clock pairs. The budget must
    // fit the mover's clock and must not depend on the opponent's clock; lines of different
    // layout or moves-to-go are not compared with each other (an engine may well use the value).
    let mut munits: Vec<(bool, usize)> = Vec::new();
    for stm in [true, false] {
        for ti in 0..TIMES.len() {
            munits.push((stm, ti));
        }
    }
    let mres: Vec<u64> = par_map_init(
        &munits,
        || (make_engine(true), make_engine(false)),
        |engines, &(stm, ti)| {
            crate::search::verif::set_dry_run(true);
            let fl = if stm { &mut engines.0 } else { &mut engines.1 };
            let mut baseline: HashMap<(bool, u64, u64), u128> = HashMap::new();
            let mut vbase: HashMap<(bool, u64, u64, u64), u128> = HashMap::new();
            let mut n = 0u64;
            let own_time = TIMES[ti];
            for &own_inc in INCS.iter().chain([own_time / 2, own_time, own_time.saturating_mul(3)].iter()) {
                for (oi, (opp_time, opp_inc)) in [(0u64, 0u64), (1000, 60_000), (3_600_000, 7)].iter().enumerate() {
                    let vals = if stm { [own_time, *opp_time, own_inc, *opp_inc] } else { [*opp_time, own_time, *opp_inc, own_inc] };
                    for (mi, mtg) in [0u64, 1, 2, 10, 40].iter().enumerate() {
                        for (pi, perm) in [[0usize, 1, 2, 3], [3, 2, 1, 0], [2, 0, 3, 1]].iter().enumerate() {
                            for slot in 0..=4usize {
                                if rep.saturated() {
                                    return n;
                                }
                                let mut line = "go".to_string();
                                for (j, &t) in perm.iter().enumerate() {
                                    if j == slot {
                                        line.push_str(&format!(" movestogo {}", mtg));
                                    }
                                    line.push_str(&format!(" {} {}", names[t], vals[t]));
                                }
                                if slot == 4 {
                                    line.push_str(&format!(" movestogo {}", mtg));
                                }
                                let _ = oi;
                                let variant = 1 + (mi as u64) * 100 + (pi as u64) * 10 + slot as u64;
                                n += 1;
                                check_line_variant(fl, stm, &line, own_time, own_inc, variant, &mut vbase, &mut baseline, &rep);
                            }
                        }
                    }
                }
            }
            n
        },
    );
    let mn: u64 = mres.iter().sum();

    // ---- stage of the session: the same clocks on the very first go of a fresh engine, on the
    // first go after ucinewgame, after a real (not dry-run) search, and on a second go in a row
    let sres: Vec<u64> = par_map_init(
        &munits,
        || (),
        |_, &(stm, ti)| {
            let mut n = 0u64;
            let own_time = TIMES[ti];
            let setup = if stm { "position startpos" } else { "position startpos moves e2e4" };
            for &own_inc in INCS.iter().chain([own_time / 2, own_time, own_time.saturating_mul(3)].iter()) {
                let mut baseline: HashMap<(bool, u64, u64), u128> = HashMap::new();
                let mut vbase: HashMap<(bool, u64, u64, u64), u128> = HashMap::new();
                for (opp_time, opp_inc) in [(0u64, 0u64), (3_600_000, 7)] {
                    if rep.saturated() {
                        return n;
                    }
                    let vals = if stm { [own_time, opp_time, own_inc, opp_inc] } else { [opp_time, own_time, opp_inc, own_inc] };
                    let line = format!("go wtime {} btime {} winc {} binc {}", vals[0], vals[1], vals[2], vals[3]);
                    // stage 1: first go of a fresh engine; stage 4: the same go again
                    let mut fl = Flounder::new();
                    crate::search::verif::set_dry_run(true);
                    fl.verif_handle_command(setup);
                    check_line_variant(&mut fl, stm, &line, own_time, own_inc, 1001, &mut vbase, &mut baseline, &rep);
                    check_line_variant(&mut fl, stm, &line, own_time, own_inc, 1004, &mut vbase, &mut baseline, &rep);
                    // stage 2: first go after ucinewgame
                    fl.verif_handle_command("ucinewgame");
                    fl.verif_handle_command(setup);
                    check_line_variant(&mut fl, stm, &line, own_time, own_inc, 1002, &mut vbase, &mut baseline, &rep);
                    // stage 3: after a real search
                    let mut fl = Flounder::new();
                    fl.verif_handle_command(setup);
                    crate::search::verif::set_dry_run(false);
                    fl.verif_handle_command("go depth 1");
                    crate::search::verif::set_dry_run(true);
                    check_line_variant(&mut fl, stm, &line, own_time, own_inc, 1003, &mut vbase, &mut baseline, &rep);
                    n += 4;
                }
            }
            n
        },
    );
    let sn: u64 = sres.iter().sum();

    // ---- two clock-based go commands in one game: the clock of the second may be lower, equal or
    // much higher than at the first (next stage of a time control, time added by an arbiter, a
    // GUI that sends no ucinewgame between games). Whatever the engine remembers from the first,
    // the second budget must fit its clock and must not move with the opponent's clock.
    const PAIR_TIMES: [u64; 7] = [0, 1, 100, 3000, 60_000, 303_000, 3_600_000];
    const PAIR_INCS: [u64; 3] = [0, 1000, 60_000];
    let mut punits: Vec<(bool, u64, u64)> = Vec::new();
    for stm in [true, false] {
        for &t1 in &PAIR_TIMES {
            for &i1 in &PAIR_INCS {
                punits.push((stm, t1, i1));
            }
        }
    }
    let pres: Vec<u64> = par_map_init(
        &punits,
        || (),
        |_, &(stm, t1, i1)| {
            let mut n = 0u64;
            let setup = if stm { "position startpos" } else { "position startpos moves e2e4" };
            let line = |own_t: u64, own_i: u64, opp_t: u64, opp_i: u64| {
                let v = if stm { [own_t, opp_t, own_i, opp_i] } else { [opp_t, own_t, opp_i, own_i] };
                format!("go wtime {} btime {} winc {} binc {}", v[0], v[1], v[2], v[3])
            };
            for &t2 in &PAIR_TIMES {
                for &i2 in &PAIR_INCS {
                    let mut seen: Option<u128> = None;
                    for (o1, o2) in [((1000u64, 0u64), (1000u64, 0u64)), ((3_600_000, 7), (5, 60_000)), ((0, 0), (3_600_000, 7))] {
                        if rep.saturated() {
                            return n;
                        }
                        let first = line(t1, i1, o1.0, o1.1);
                        let second = line(t2, i2, o2.0, o2.1);
                        n += 1;
                        if let Some(b) = pair_budget(&rep, stm, setup, &first, &second, t2, i2) {
                            match seen {
                                None => seen = Some(b),
                                Some(prev) if prev != b => {
                                    rep.violation(
                                        format!("C12 pair stm={} first-own={}+{} second-own={}+{} depends-on-opponent", if stm { "w" } else { "b" }, t1, i1, t2, i2),
                                        format!("{:?} then {:?} ({} to move): the second budget is {} ms, but with other opponent clocks in the two commands (same own clocks) it is {} ms", first, second, if stm { "white" } else { "black" }, b, prev),
                                        vec!["c12-pair".to_string(), "--stm".into(), if stm { "w".into() } else { "b".into() }, "--first".into(), first.clone(), "--second".into(), second.clone(), "--own-time".into(), t2.to_string(), "--own-inc".into(), i2.to_string(), "--t1".into(), t1.to_string(), "--i1".into(), i1.to_string()],
                                        J::Null,
                                    );
                                }
                                _ => {}
                            }
                        }
                    }
                }
            }
            n
        },
    );
    let pn: u64 = pres.iter().sum();

    // ---- the budget as the search really spends it: real go commands under the node clock
    // (1 node = 1 ms of the engine's clock) on middlegame positions, with clocks on which the
    // half-the-clock cap binds. Whatever the search does with its budget on the way (extensions,
    // allowances), the answer must come before the mover's clock has run out.
    for f in SPEND_POSITIONS {
        match crate::refchess::Pos::from_fen(f) {
            Ok(p) if p.validity().is_ok() => {}
            _ => {
                eprintln!("MACHINERY ERROR: C12 position {:?} is not a valid position", f);
                std::process::exit(2);
            }
        }
    }
    let mut sunits: Vec<(usize, u64, u64)> = Vec::new();
    for pi in 0..SPEND_POSITIONS.len() {
        // with an increment of the whole clock the plan is half the clock (the cap binds); many
        // clock values, because which iteration the deadline interrupts decides what the search does
        for t in [600u64, 1500, 4000, 8000, 16_000, 30_000, 60_000, 120_000, 250_000, 400_000] {
            for inc in [0, t] {
                sunits.push((pi, t, inc));
            }
        }
        // one long think per position (plan: 1.5 / 4 million nodes, depth 6-8): late iterations are
        // where a search changes its mind about move and score
        sunits.push((pi, 3_000_000, 3_000_000));
        sunits.push((pi, 8_000_000, 8_000_000));
    }
    let spent: Vec<(u64, u64)> = par_map_init(
        &sunits,
        || (),
        |_, &(pi, t, inc)| {
            if rep.saturated() {
                return (0, 0);
            }
            let r = spend_case(&rep, SPEND_POSITIONS[pi], t, inc);
            (1, r)
        },
    );
    let spn: u64 = spent.iter().map(|x| x.0).sum();
    let sp_max: u64 = spent.iter().map(|x| x.1).max().unwrap_or(0);
    crate::timer::verif::set_node_clock(None);

    // ---- extreme values: every combination of the four clock fields over the edges of the u64
    // range (anything `parse::<u64>()` accepts is a clock value the command can carry); arithmetic
    // on them must neither panic (the harness is built with overflow checks, like `cargo run`)
    // nor produce a budget beyond the mover's time
    const EXTREME: [u64; 9] = [0, 1, 5000, u32::MAX as u64, u32::MAX as u64 + 1, i64::MAX as u64, i64::MAX as u64 + 1, u64::MAX - 1, u64::MAX];
    let mut eunits: Vec<(bool, u64)> = Vec::new();
    for stm in [true, false] {
        for &t in &EXTREME {
            eunits.push((stm, t));
        }
    }
    let eres: Vec<(u64, u64)> = par_map_init(
        &eunits,
        || (make_engine(true), make_engine(false)),
        |engines, &(stm, own_time)| {
            crate::search::verif::set_dry_run(true);
            let fl = if stm { &mut engines.0 } else { &mut engines.1 };
            let mut baseline: HashMap<(bool, u64, u64), u128> = HashMap::new();
            let mut n = 0u64;
            let mut distinct = 0u64;
            for &own_inc in &EXTREME {
                distinct += 1;
                for &opp_time in &EXTREME {
                    for &opp_inc in &EXTREME {
                        let vals = if stm { [own_time, opp_time, own_inc, opp_inc] } else { [opp_time, own_time, opp_inc, own_inc] };
                        for perm in &orders {
                            if rep.saturated() {
                                return (n, distinct);
                            }
                            let mut line = "go".to_string();
                            for &t in perm {
                                line.push_str(&format!(" {} {}", names[t], vals[t]));
                            }
                            n += 1;
                            check_line(fl, stm, &line, own_time, own_inc, &mut baseline, &rep);
                        }
                    }
                }
            }
            (n, distinct)
        },
    );
    let en: u64 = eres.iter().map(|r| r.0).sum();
    let edistinct: u64 = eres.iter().map(|r| r.1).sum();

    let dn: u64 = dres.iter().map(|r| r.0).sum();
    let ddistinct: u64 = dres.iter().map(|r| r.1).sum();
    let n: u64 = results.iter().map(|r| r.0).sum::<u64>() + dn + en + mn + sn + pn + spn + opt_n;
    let distinct: u64 = results.iter().map(|r| r.1).sum::<u64>() + ddistinct + edistinct;
    let samples: Vec<String> = results.iter().flat_map(|r| r.2.iter().cloned()).take(8).collect();
    let cov = J::obj()
        .set("evaluations", n)
        .set("distinct_nontrivial", distinct)
        .set("rule", "grid: own time in 19 values (0 .. 24 h, dense around the 5 s reserve) x own increment in 6 values x opponent time 19 x opponent increment 6 x all 24 orders of the four token pairs x {no prefix, 'depth 5'} x both sides to move; plus every presence subset containing the mover's time in every order. A case is distinct by (side to move, own time, own increment); all other dimensions must not change the budget.")
        .set("dense_sweep", J::obj().set("own_time_from", 0u64).set("own_time_to", dense_to).set("step", 1u64).set("go_lines", dn).set("own_clock_points", ddistinct).set("increments_per_point", "0, 1, 100, 1000, 60000, time-1, time, time+1, time/2").set("opponent_clocks_per_point", 3u64).set("token_orders_per_point", 4u64))
        .set("extreme_values", J::obj().set("values_per_field", "0, 1, 5000, 2^32-1, 2^32, 2^63-1, 2^63, 2^64-2, 2^64-1").set("go_lines", en).set("own_clock_points", edistinct).set("rule", "all 9^4 combinations of the four fields x 4 token orders x both sides to move"))
        .set("movestogo", J::obj().set("go_lines", mn).set("rule", "movestogo N (N in 0,1,2,10,40) in each of the five slots around the four clock pairs, three pair orders, own time over the 19 grid values, own increment over the 6 grid values + time/2, time, 3*time, three opponent clocks; the budget must fit and must not change with the opponent's clock (lines with a different layout or N are not compared)"))
        .set("session_stages", J::obj().set("go_lines", sn).set("rule", "the same go line as the very first go of a fresh engine, repeated, as the first go after ucinewgame, and after a real depth-1 search; fit and independence from the opponent's clock per stage"))
        .set("pairs_of_go_commands", J::obj().set("pairs", pn).set("rule", "two clock-based go commands in one game (no ucinewgame between): own clock of each over 0, 1, 100, 3000, 60000, 303000, 3600000 ms x increment 0, 1000, 60000, both sides to move, three opponent-clock variants; the second budget must fit its clock and be the same for all opponent variants"))
        .set("option_sessions", J::obj().set("go_lines", opt_n).set("options_advertised_by_the_engine", J::Arr(opt_names.iter().map(|n| J::Str(n.clone())).collect())).set("setoption_lines_tried", opt_lines).set("rule", "a setoption line before the position command, after it, before a ucinewgame, and inside a uci/isready-framed session, then clock-based go commands over 16 own clocks (thorough: the whole grid) x two opponent clocks: every value at and next to the ends of the range, the default and its multiples and round numbers for each spin option the engine advertises in its uci answer (both values of a check, every var of a combo, buttons pressed, pairs of advertised options), plus 15 option names GUIs send by habit with 10 round values each; budgets must fit the mover's clock and not move with the opponent's; anything seen is confirmed on fresh engines (that is the replay)"))
        .set("budget_as_spent", J::obj().set("real_go_commands", spn).set("positions", SPEND_POSITIONS.len()).set("largest_share_of_the_clock_spent_permille", sp_max).set("rule", "real go (not dry run) under the node clock on middlegame positions, own clock 600 .. 400000 ms in 10 steps x increment 0 or the whole clock, plus 3 000 000 and 8 000 000 ms with an increment of the whole clock (searches of 1.5 and 4 million nodes): virtual time elapsed when the answer comes (nodes visited) must be below the mover's clock (+ the C07 allowance of 2048 nodes)"))
        .set("exhaustive", true)
        .set("samples", samples);
    rep.finish(
        "exploration",
        cov,
        vec!["clock values beyond the dense sweep and between grid points behave like their neighbours (the allocation is piecewise linear: (time-5000)/25 + inc, capped)".into(), "of the other go tokens only `depth N` (prefix) and `movestogo N` are generated; `movetime` together with clocks is an explicit request and outside the property".into()],
        out,
    );
}

pub fn replay(stm: &str, line: &str, own_time: u64, own_inc: u64) -> i32 {
    let rep = Report::new("C12", "quick", 0);
    let white = stm == "w";
    let mut fl = make_engine(white);
    let mut base = HashMap::new();
    // the canonical line for this own clock establishes the baseline
    let canon = if white {
        format!("go wtime {} btime 1000 winc {} binc 0", own_time, own_inc)
    } else {
        format!("go wtime 1000 btime {} winc 0 binc {}", own_time, own_inc)
    };
    check_line(&mut fl, white, &canon, own_time, own_inc, &mut base, &rep);
    check_line(&mut fl, white, line, own_time, own_inc, &mut base, &rep);
    let v = rep.violations.lock().unwrap();
    for x in v.iter() {
        println!("REPLAY-VIOLATION {} :: {}", x.sig, x.text);
    }
    if v.is_empty() {
        println!("REPLAY-OK C12 {}", line);
        0
    } else {
        1
    }
}
