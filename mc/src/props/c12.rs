//! C12: thinking time comes from the mover's own clock and fits in it.
//! Complete grid of clock values x every order of the present token pairs x presence subsets
//! x side to move, through the real `go` parser with the search in dry-run.

use crate::eng::guard;
use crate::json::J;
use crate::par::par_map_init;
use crate::report::Report;
use crate::uci::Flounder;
use std::collections::HashMap;

const TIMES: [u64; 19] = [0, 1, 2, 49, 50, 51, 999, 1000, 4999, 5000, 5001, 5024, 5025, 5026, 10_000, 60_000, 600_000, 3_600_000, 86_400_000];
const INCS: [u64; 6] = [0, 1, 100, 1000, 5000, 60_000];

fn permutations(items: &[usize]) -> Vec<Vec<usize>> {
    if items.len() <= 1 {
        return vec![items.to_vec()];
    }
    let mut out = Vec::new();
    for i in 0..items.len() {
        let mut rest = items.to_vec();
        let x = rest.remove(i);
        for mut p in permutations(&rest) {
            p.insert(0, x);
            out.push(p);
        }
    }
    out
}

/// Budget the engine would use for this go line (None = no time limit), via the dry-run hook.
fn budget(fl: &mut Flounder, line: &str) -> Result<Option<u128>, String> {
    guard(|| {
        fl.verif_handle_command(line);
        crate::search::verif::last_go().map(|(_, t)| t.map(|d| d.as_millis()))
    })?
    .ok_or_else(|| "go did not reach the search".to_string())
}

pub fn check_line(fl: &mut Flounder, white_to_move: bool, line: &str, own_time: u64, own_inc: u64, baseline: &mut HashMap<(bool, u64, u64), u128>, rep: &Report) -> bool {
    check_line_variant(fl, white_to_move, line, own_time, own_inc, 0, &mut HashMap::new(), baseline, rep)
}

/// As `check_line`; lines of different `variant` (token layout, stage of the session) are not
/// required to agree with each other, only with lines of the same variant and own clock.
pub fn check_line_variant(fl: &mut Flounder, white_to_move: bool, line: &str, own_time: u64, own_inc: u64, variant: u64, vbase: &mut HashMap<(bool, u64, u64, u64), u128>, baseline: &mut HashMap<(bool, u64, u64), u128>, rep: &Report) -> bool {
    let sig_base = format!("C12 stm={} own_time={} own_inc={}", if white_to_move { "w" } else { "b" }, own_time, own_inc);
    let args = vec!["c12-one".to_string(), "--stm".into(), if white_to_move { "w".into() } else { "b".into() }, "--line".into(), line.to_string(), "--own-time".into(), own_time.to_string(), "--own-inc".into(), own_inc.to_string()];
    crate::crumb::set_owned(&args);
    match budget(fl, line) {
        Err(e) => {
            rep.violation(format!("{} panic", sig_base), format!("{:?}: {}", line, e), args, J::Null);
            false
        }
        Ok(None) => {
            rep.violation(format!("{} nolimit", sig_base), format!("{:?} ({} to move): no time limit was set although the mover's clock was given", line, if white_to_move { "white" } else { "black" }), args, J::Null);
            false
        }
        Ok(Some(b)) => {
            let mut ok = true;
            if b > own_time as u128 || (own_time > 0 && b >= own_time as u128) {
                rep.violation(
                    format!("{} exceeds", sig_base),
                    format!("{:?} ({} to move): budget {} ms does not fit in the mover's remaining {} ms", line, if white_to_move { "white" } else { "black" }, b, own_time),
                    args.clone(),
                    J::Null,
                );
                ok = false;
            }
            let key = (white_to_move, own_time, own_inc);
            let prev = if variant == 0 { baseline.get(&key).copied() } else { vbase.get(&(white_to_move, own_time, own_inc, variant)).copied() };
            match prev {
                None => {
                    if variant == 0 {
                        baseline.insert(key, b);
                    } else {
                        vbase.insert((white_to_move, own_time, own_inc, variant), b);
                    }
                }
                Some(prev) if prev != b => {
                    rep.violation(
                        format!("{} depends-on-opponent-or-order", sig_base),
                        format!("{:?} ({} to move): budget {} ms, but another line with the same own clock ({} ms + {} ms){} gave {} ms", line, if white_to_move { "white" } else { "black" }, b, own_time, own_inc, if variant == 0 { "" } else { " and the same token layout / session stage" }, prev),
                        args,
                        J::Null,
                    );
                    ok = false;
                }
                _ => {}
            }
            ok
        }
    }
}

fn make_engine(white_to_move: bool) -> Flounder {
    let mut fl = Flounder::new();
    crate::search::verif::set_dry_run(true);
    if white_to_move {
        fl.verif_handle_command("position startpos");
    } else {
        fl.verif_handle_command("position startpos moves e2e4");
    }
    fl
}

pub fn run(tier: &str, seed: u64, out: &str) {
    let rep = Report::new("C12", tier, seed);
    let names = ["wtime", "btime", "winc", "binc"];
    // work unit = (side to move, own time index)
    let mut units = Vec::new();
    for stm in [true, false] {
        for ti in 0..TIMES.len() {
            units.push((stm, ti));
        }
    }
    let all4 = permutations(&[0, 1, 2, 3]);
    let results: Vec<(u64, u64, Vec<String>)> = par_map_init(
        &units,
        || (make_engine(true), make_engine(false)),
        |engines, &(stm, ti)| {
            crate::search::verif::set_dry_run(true);
            let fl = if stm { &mut engines.0 } else { &mut engines.1 };
            let mut baseline: HashMap<(bool, u64, u64), u128> = HashMap::new();
            let mut n = 0u64;
            let mut distinct = 0u64;
            let mut samples = Vec::new();
            let own_time = TIMES[ti];
            for &own_inc in &INCS {
                distinct += 1;
                for &opp_time in &TIMES {
                    for &opp_inc in &INCS {
                        if rep.saturated() {
                            return (n, distinct, samples);
                        }
                        let vals = if stm { [own_time, opp_time, own_inc, opp_inc] } else { [opp_time, own_time, opp_inc, own_inc] };
                        // all four pairs present, all 24 orders, with and without a leading depth
                        for perm in &all4 {
                            for lead in ["", "depth 5 "] {
                                let mut line = format!("go {}", lead);
                                for (j, &t) in perm.iter().enumerate() {
                                    if j > 0 {
                                        line.push(' ');
                                    }
                                    line.push_str(&format!("{} {}", names[t], vals[t]));
                                }
                                n += 1;
                                check_line(fl, stm, &line, own_time, own_inc, &mut baseline, &rep);
                                if samples.len() < 2 {
                                    samples.push(line);
                                }
                            }
                        }
                    }
                }
                // presence subsets that contain the mover's time, every order of the present pairs
                let own_t = if stm { 0 } else { 1 };
                let own_i = if stm { 2 } else { 3 };
                for mask in 0..16usize {
                    if mask & (1 << own_t) == 0 || mask == 15 {
                        continue;
                    }
                    let present: Vec<usize> = (0..4).filter(|t| mask & (1 << t) != 0).collect();
                    let eff_inc = if mask & (1 << own_i) != 0 { own_inc } else { 0 };
                    for &opp_time in &[0u64, 1000, 600_000] {
                        for &opp_inc in &[0u64, 1000, 60_000] {
                            let vals = if stm { [own_time, opp_time, own_inc, opp_inc] } else { [opp_time, own_time, opp_inc, own_inc] };
                            for perm in permutations(&present) {
                                let mut line = "go".to_string();
                                for &t in &perm {
                                    line.push_str(&format!(" {} {}", names[t], vals[t]));
                                }
                                n += 1;
                                check_line(fl, stm, &line, own_time, eff_inc, &mut baseline, &rep);
                                if samples.len() < 4 {
                                    samples.push(line);
                                }
                            }
                        }
                    }
                }
            }
            (n, distinct, samples)
        },
    );

    // ---- dense sweep: every own clock value of a range (step 1), so that no threshold between
    // grid points (reserve, caps, minimum thinking times, overheads) can hide; a few opponent
    // values and token orders per point
    let dense_to: u64 = if tier == "thorough" { 200_000 } else { 12_000 };
    let chunk: u64 = 500;
    let mut dunits: Vec<(bool, u64)> = Vec::new();
    for stm in [true, false] {
        let mut a = 0;
        while a <= dense_to {
            dunits.push((stm, a));
            a += chunk;
        }
    }
    let orders: [[usize; 4]; 4] = [[0, 1, 2, 3], [3, 2, 1, 0], [1, 0, 3, 2], [2, 3, 0, 1]];
    let dres: Vec<(u64, u64)> = par_map_init(
        &dunits,
        || (make_engine(true), make_engine(false)),
        |engines, &(stm, from)| {
            crate::search::verif::set_dry_run(true);
            let fl = if stm { &mut engines.0 } else { &mut engines.1 };
            let mut baseline: HashMap<(bool, u64, u64), u128> = HashMap::new();
            let mut n = 0u64;
            let mut distinct = 0u64;
            for own_time in from..(from + chunk).min(dense_to + 1) {
                let mut incs: Vec<u64> = vec![0, 1, 100, 1000, 60_000, own_time.saturating_sub(1), own_time, own_time + 1, own_time / 2];
                incs.sort();
                incs.dedup();
                for own_inc in incs {
                    distinct += 1;
                    for (opp_time, opp_inc) in [(0u64, 0u64), (7, 50_000), (3_600_000, 3)] {
                        let vals = if stm { [own_time, opp_time, own_inc, opp_inc] } else { [opp_time, own_time, opp_inc, own_inc] };
                        for perm in &orders {
                            if rep.saturated() {
                                return (n, distinct);
                            }
                            let mut line = "go".to_string();
                            for &t in perm {
                                line.push_str(&format!(" {} {}", names[t], vals[t]));
                            }
                            n += 1;
                            check_line(fl, stm, &line, own_time, own_inc, &mut baseline, &rep);
                        }
                    }
                }
            }
            (n, distinct)
        },
    );
    // ---- movestogo: the standard token in every slot between the clock pairs. The budget must
    // fit the mover's clock and must not depend on the opponent's clock; lines of different
    // layout or moves-to-go are not compared with each other (an engine may well use the value).
    let mut munits: Vec<(bool, usize)> = Vec::new();
    for stm in [true, false] {
        for ti in 0..TIMES.len() {
            munits.push((stm, ti));
        }
    }
    let mres: Vec<u64> = par_map_init(
        &munits,
        || (make_engine(true), make_engine(false)),
        |engines, &(stm, ti)| {
            crate::search::verif::set_dry_run(true);
            let fl = if stm { &mut engines.0 } else { &mut engines.1 };
            let mut baseline: HashMap<(bool, u64, u64), u128> = HashMap::new();
            let mut vbase: HashMap<(bool, u64, u64, u64), u128> = HashMap::new();
            let mut n = 0u64;
            let own_time = TIMES[ti];
            for &own_inc in INCS.iter().chain([own_time / 2, own_time, own_time.saturating_mul(3)].iter()) {
                for (oi, (opp_time, opp_inc)) in [(0u64, 0u64), (1000, 60_000), (3_600_000, 7)].iter().enumerate() {
                    let vals = if stm { [own_time, *opp_time, own_inc, *opp_inc] } else { [*opp_time, own_time, *opp_inc, own_inc] };
                    for (mi, mtg) in [0u64, 1, 2, 10, 40].iter().enumerate() {
                        for (pi, perm) in [[0usize, 1, 2, 3], [3, 2, 1, 0], [2, 0, 3, 1]].iter().enumerate() {
                            for slot in 0..=4usize {
                                if rep.saturated() {
                                    return n;
                                }
                                let mut line = "go".to_string();
                                for (j, &t) in perm.iter().enumerate() {
                                    if j == slot {
                                        line.push_str(&format!(" movestogo {}", mtg));
                                    }
                                    line.push_str(&format!(" {} {}", names[t], vals[t]));
                                }
                                if slot == 4 {
                                    line.push_str(&format!(" movestogo {}", mtg));
                                }
                                let _ = oi;
                                let variant = 1 + (mi as u64) * 100 + (pi as u64) * 10 + slot as u64;
                                n += 1;
                                check_line_variant(fl, stm, &line, own_time, own_inc, variant, &mut vbase, &mut baseline, &rep);
                            }
                        }
                    }
                }
            }
            n
        },
    );
    let mn: u64 = mres.iter().sum();

    // ---- stage of the session: the same clocks on the very first go of a fresh engine, on the
    // first go after ucinewgame, after a real (not dry-run) search, and on a second go in a row
    let sres: Vec<u64> = par_map_init(
        &munits,
        || (),
        |_, &(stm, ti)| {
            let mut n = 0u64;
            let own_time = TIMES[ti];
            let setup = if stm { "position startpos" } else { "position startpos moves e2e4" };
            for &own_inc in INCS.iter().chain([own_time / 2, own_time, own_time.saturating_mul(3)].iter()) {
                let mut baseline: HashMap<(bool, u64, u64), u128> = HashMap::new();
                let mut vbase: HashMap<(bool, u64, u64, u64), u128> = HashMap::new();
                for (opp_time, opp_inc) in [(0u64, 0u64), (3_600_000, 7)] {
                    if rep.saturated() {
                        return n;
                    }
                    let vals = if stm { [own_time, opp_time, own_inc, opp_inc] } else { [opp_time, own_time, opp_inc, own_inc] };
                    let line = format!("go wtime {} btime {} winc {} binc {}", vals[0], vals[1], vals[2], vals[3]);
                    // stage 1: first go of a fresh engine; stage 4: the same go again
                    let mut fl = Flounder::new();
                    crate::search::verif::set_dry_run(true);
                    fl.verif_handle_command(setup);
                    check_line_variant(&mut fl, stm, &line, own_time, own_inc, 1001, &mut vbase, &mut baseline, &rep);
                    check_line_variant(&mut fl, stm, &line, own_time, own_inc, 1004, &mut vbase, &mut baseline, &rep);
                    // stage 2: first go after ucinewgame
                    fl.verif_handle_command("ucinewgame");
                    fl.verif_handle_command(setup);
                    check_line_variant(&mut fl, stm, &line, own_time, own_inc, 1002, &mut vbase, &mut baseline, &rep);
                    // stage 3: after a real search
                    let mut fl = Flounder::new();
                    fl.verif_handle_command(setup);
                    crate::search::verif::set_dry_run(false);
                    fl.verif_handle_command("go depth 1");
                    crate::search::verif::set_dry_run(true);
                    check_line_variant(&mut fl, stm, &line, own_time, own_inc, 1003, &mut vbase, &mut baseline, &rep);
                    n += 4;
                }
            }
            n
        },
    );
    let sn: u64 = sres.iter().sum();

    // ---- extreme values: every combination of the four clock fields over the edges of the u64
    // range (anything `parse::<u64>()` accepts is a clock value the command can carry); arithmetic
    // on them must neither panic (the harness is built with overflow checks, like `cargo run`)
    // nor produce a budget beyond the mover's time
    const EXTREME: [u64; 9] = [0, 1, 5000, u32::MAX as u64, u32::MAX as u64 + 1, i64::MAX as u64, i64::MAX as u64 + 1, u64::MAX - 1, u64::MAX];
    let mut eunits: Vec<(bool, u64)> = Vec::new();
    for stm in [true, false] {
        for &t in &EXTREME {
            eunits.push((stm, t));
        }
    }
    let eres: Vec<(u64, u64)> = par_map_init(
        &eunits,
        || (make_engine(true), make_engine(false)),
        |engines, &(stm, own_time)| {
            crate::search::verif::set_dry_run(true);
            let fl = if stm { &mut engines.0 } else { &mut engines.1 };
            let mut baseline: HashMap<(bool, u64, u64), u128> = HashMap::new();
            let mut n = 0u64;
            let mut distinct = 0u64;
            for &own_inc in &EXTREME {
                distinct += 1;
                for &opp_time in &EXTREME {
                    for &opp_inc in &EXTREME {
                        let vals = if stm { [own_time, opp_time, own_inc, opp_inc] } else { [opp_time, own_time, opp_inc, own_inc] };
                        for perm in &orders {
                            if rep.saturated() {
                                return (n, distinct);
                            }
                            let mut line = "go".to_string();
                            for &t in perm {
                                line.push_str(&format!(" {} {}", names[t], vals[t]));
                            }
                            n += 1;
                            check_line(fl, stm, &line, own_time, own_inc, &mut baseline, &rep);
                        }
                    }
                }
            }
            (n, distinct)
        },
    );
    let en: u64 = eres.iter().map(|r| r.0).sum();
    let edistinct: u64 = eres.iter().map(|r| r.1).sum();

    let dn: u64 = dres.iter().map(|r| r.0).sum();
    let ddistinct: u64 = dres.iter().map(|r| r.1).sum();
    let n: u64 = results.iter().map(|r| r.0).sum::<u64>() + dn + en + mn + sn;
    let distinct: u64 = results.iter().map(|r| r.1).sum::<u64>() + ddistinct + edistinct;
    let samples: Vec<String> = results.iter().flat_map(|r| r.2.iter().cloned()).take(8).collect();
    let cov = J::obj()
        .set("evaluations", n)
        .set("distinct_nontrivial", distinct)
        .set("rule", "grid: own time in 19 values (0 .. 24 h, dense around the 5 s reserve) x own increment in 6 values x opponent time 19 x opponent increment 6 x all 24 orders of the four token pairs x {no prefix, 'depth 5'} x both sides to move; plus every presence subset containing the mover's time in every order. A case is distinct by (side to move, own time, own increment); all other dimensions must not change the budget.")
        .set("dense_sweep", J::obj().set("own_time_from", 0u64).set("own_time_to", dense_to).set("step", 1u64).set("go_lines", dn).set("own_clock_points", ddistinct).set("increments_per_point", "0, 1, 100, 1000, 60000, time-1, time, time+1, time/2").set("opponent_clocks_per_point", 3u64).set("token_orders_per_point", 4u64))
        .set("extreme_values", J::obj().set("values_per_field", "0, 1, 5000, 2^32-1, 2^32, 2^63-1, 2^63, 2^64-2, 2^64-1").set("go_lines", en).set("own_clock_points", edistinct).set("rule", "all 9^4 combinations of the four fields x 4 token orders x both sides to move"))
        .set("movestogo", J::obj().set("go_lines", mn).set("rule", "movestogo N (N in 0,1,2,10,40) in each of the five slots around the four clock pairs, three pair orders, own time over the 19 grid values, own increment over the 6 grid values + time/2, time, 3*time, three opponent clocks; the budget must fit and must not change with the opponent's clock (lines with a different layout or N are not compared)"))
        .set("session_stages", J::obj().set("go_lines", sn).set("rule", "the same go line as the very first go of a fresh engine, repeated, as the first go after ucinewgame, and after a real depth-1 search; fit and independence from the opponent's clock per stage"))
        .set("exhaustive", true)
        .set("samples", samples);
    rep.finish(
        "exploration",
        cov,
        vec!["clock values beyond the dense sweep and between grid points behave like their neighbours (the allocation is piecewise linear: (time-5000)/25 + inc, capped)".into(), "of the other go tokens only `depth N` (prefix) and `movestogo N` are generated; `movetime` together with clocks is an explicit request and outside the property".into()],
        out,
    );
}

pub fn replay(stm: &str, line: &str, own_time: u64, own_inc: u64) -> i32 {
    let rep = Report::new("C12", "quick", 0);
    let white = stm == "w";
    let mut fl = make_engine(white);
    let mut base = HashMap::new();
    // the canonical line for this own clock establishes the baseline
    let canon = if white {
        format!("go wtime {} btime 1000 winc {} binc 0", own_time, own_inc)
    } else {
        format!("go wtime 1000 btime {} winc 0 binc {}", own_time, own_inc)
    };
    check_line(&mut fl, white, &canon, own_time, own_inc, &mut base, &rep);
    check_line(&mut fl, white, line, own_time, own_inc, &mut base, &rep);
    let v = rep.violations.lock().unwrap();
    for x in v.iter() {
        println!("REPLAY-VIOLATION {} :: {}", x.sig, x.text);
    }
    if v.is_empty() {
        println!("REPLAY-OK C12 {}", line);
        0
    } else {
        1
    }
}
