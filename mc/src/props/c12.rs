//! C12: thinking time comes from the mover's own clock and fits in it.
//! Complete grid of clock values x every order of the present token pairs x presence subsets
//! x side to move, through the real `go` parser with the search in dry-run.

use crate::eng::guard;
use crate::json::J;
use crate::par::par_map_init;
use crate::report::Report;
use crate::uci::Flounder;
use std::collections::HashMap;

const TIMES: [u64; 19] = [0, 1, 2, 49, 50, 51, 999, 1000, 4999, 5000, 5001, 5024, 5025, 5026, 10_000, 60_000, 600_000, 3_600_000, 86_400_000];
const INCS: [u64; 6] = [0, 1, 100, 1000, 5000, 60_000];

fn permutations(items: &[usize]) -> Vec<Vec<usize>> {
    if items.len() <= 1 {
        return vec![items.to_vec()];
    }
    let mut out = Vec::new();
    for i in 0..items.len() {
        let mut rest = items.to_vec();
        let x = rest.remove(i);
        for mut p in permutations(&rest) {
            p.insert(0, x);
            out.push(p);
        }
    }
    out
}

/// Budget the engine would use for this go line (None = no time limit), via the dry-run hook.
fn budget(fl: &mut Flounder, line: &str) -> Result<Option<u128>, String> {
    guard(|| {
        fl.verif_handle_command(line);
        crate::search::verif::last_go().map(|(_, t)| t.map(|d| d.as_millis()))
    })?
    .ok_or_else(|| "go did not reach the search".to_string())
}

pub fn check_line(fl: &mut Flounder, white_to_move: bool, line: &str, own_time: u64, own_inc: u64, baseline: &mut HashMap<(bool, u64, u64), u128>, rep: &Report) -> bool {
    let sig_base = format!("C12 stm={} own_time={} own_inc={}", if white_to_move { "w" } else { "b" }, own_time, own_inc);
    let args = vec!["c12-one".to_string(), "--stm".into(), if white_to_move { "w".into() } else { "b".into() }, "--line".into(), line.to_string(), "--own-time".into(), own_time.to_string(), "--own-inc".into(), own_inc.to_string()];
    match budget(fl, line) {
        Err(e) => {
            rep.violation(format!("{} panic", sig_base), format!("{:?}: {}", line, e), args, J::Null);
            false
        }
        Ok(None) => {
            rep.violation(format!("{} nolimit", sig_base), format!("{:?} ({} to move): no time limit was set although the mover's clock was given", line, if white_to_move { "white" } else { "black" }), args, J::Null);
            false
        }
        Ok(Some(b)) => {
            let mut ok = true;
            if b > own_time as u128 || (own_time > 0 && b >= own_time as u128) {
                rep.violation(
                    format!("{} exceeds", sig_base),
                    format!("{:?} ({} to move): budget {} ms does not fit in the mover's remaining {} ms", line, if white_to_move { "white" } else { "black" }, b, own_time),
                    args.clone(),
                    J::Null,
                );
                ok = false;
            }
            let key = (white_to_move, own_time, own_inc);
            match baseline.get(&key) {
                None => {
                    baseline.insert(key, b);
                }
                Some(prev) if *prev != b => {
                    rep.violation(
                        format!("{} depends-on-opponent-or-order", sig_base),
                        format!("{:?} ({} to move): budget {} ms, but another line with the same own clock ({} ms + {} ms) gave {} ms", line, if white_to_move { "white" } else { "black" }, b, own_time, own_inc, prev),
                        args,
                        J::Null,
                    );
                    ok = false;
                }
                _ => {}
            }
            ok
        }
    }
}

fn make_engine(white_to_move: bool) -> Flounder {
    let mut fl = Flounder::new();
    crate::search::verif::set_dry_run(true);
    if white_to_move {
        fl.verif_handle_command("position startpos");
    } else {
        fl.verif_handle_command("position startpos moves e2e4");
    }
    fl
}

pub fn run(tier: &str, seed: u64, out: &str) {
    let rep = Report::new("C12", tier, seed);
    let names = ["wtime", "btime", "winc", "binc"];
    // work unit = (side to move, own time index)
    let mut units = Vec::new();
    for stm in [true, false] {
        for ti in 0..TIMES.len() {
            units.push((stm, ti));
        }
    }
    let all4 = permutations(&[0, 1, 2, 3]);
    let results: Vec<(u64, u64, Vec<String>)> = par_map_init(
        &units,
        || (make_engine(true), make_engine(false)),
        |engines, &(stm, ti)| {
            crate::search::verif::set_dry_run(true);
            let fl = if stm { &mut engines.0 } else { &mut engines.1 };
            let mut baseline: HashMap<(bool, u64, u64), u128> = HashMap::new();
            let mut n = 0u64;
            let mut distinct = 0u64;
            let mut samples = Vec::new();
            let own_time = TIMES[ti];
            for &own_inc in &INCS {
                distinct += 1;
                for &opp_time in &TIMES {
                    for &opp_inc in &INCS {
                        if rep.saturated() {
                            return (n, distinct, samples);
                        }
                        let vals = if stm { [own_time, opp_time, own_inc, opp_inc] } else { [opp_time, own_time, opp_inc, own_inc] };
                        // all four pairs present, all 24 orders, with and without a leading depth
                        for perm in &all4 {
                            for lead in ["", "depth 5 "] {
                                let mut line = format!("go {}", lead);
                                for (j, &t) in perm.iter().enumerate() {
                                    if j > 0 {
                                        line.push(' ');
                                    }
                                    line.push_str(&format!("{} {}", names[t], vals[t]));
                                }
                                n += 1;
                                check_line(fl, stm, &line, own_time, own_inc, &mut baseline, &rep);
                                if samples.len() < 2 {
                                    samples.push(line);
                                }
                            }
                        }
                    }
                }
                // presence subsets that contain the mover's time, every order of the present pairs
                let own_t = if stm { 0 } else { 1 };
                let own_i = if stm { 2 } else { 3 };
                for mask in 0..16usize {
                    if mask & (1 << own_t) == 0 || mask == 15 {
                        continue;
                    }
                    let present: Vec<usize> = (0..4).filter(|t| mask & (1 << t) != 0).collect();
                    let eff_inc = if mask & (1 << own_i) != 0 { own_inc } else { 0 };
                    for &opp_time in &[0u64, 1000, 600_000] {
                        for &opp_inc in &[0u64, 1000, 60_000] {
                            let vals = if stm { [own_time, opp_time, own_inc, opp_inc] } else { [opp_time, own_time, opp_inc, own_inc] };
                            for perm in permutations(&present) {
                                let mut line = "go".to_string();
                                for &t in &perm {
                                    line.push_str(&format!(" {} {}", names[t], vals[t]));
                                }
                                n += 1;
                                check_line(fl, stm, &line, own_time, eff_inc, &mut baseline, &rep);
                                if samples.len() < 4 {
                                    samples.push(line);
                                }
                            }
                        }
                    }
                }
            }
            (n, distinct, samples)
        },
    );

    // ---- dense sweep: every own clock value of a range (step 1), so that no threshold between
    // grid points (reserve, caps, minimum thinking times, overheads) can hide; a few opponent
    // values and token orders per point
    let dense_to: u64 = if tier == "thorough" { 200_000 } else { 12_000 };
    let chunk: u64 = 500;
    let mut dunits: Vec<(bool, u64)> = Vec::new();
    for stm in [true, false] {
        let mut a = 0;
        while a <= dense_to {
            dunits.push((stm, a));
            a += chunk;
        }
    }
    let orders: [[usize; 4]; 4] = [[0, 1, 2, 3], [3, 2, 1, 0], [1, 0, 3, 2], [2, 3, 0, 1]];
    let dres: Vec<(u64, u64)> = par_map_init(
        &dunits,
        || (make_engine(true), make_engine(false)),
        |engines, &(stm, from)| {
            crate::search::verif::set_dry_run(true);
            let fl = if stm { &mut engines.0 } else { &mut engines.1 };
            let mut baseline: HashMap<(bool, u64, u64), u128> = HashMap::new();
            let mut n = 0u64;
            let mut distinct = 0u64;
            for own_time in from..(from + chunk).min(dense_to + 1) {
                let mut incs: Vec<u64> = vec![0, 1, 100, 1000, 60_000, own_time.saturating_sub(1), own_time, own_time + 1, own_time / 2];
                incs.sort();
                incs.dedup();
                for own_inc in incs {
                    distinct += 1;
                    for (opp_time, opp_inc) in [(0u64, 0u64), (7, 50_000), (3_600_000, 3)] {
                        let vals = if stm { [own_time, opp_time, own_inc, opp_inc] } else { [opp_time, own_time, opp_inc, own_inc] };
                        for perm in &orders {
                            if rep.saturated() {
                                return (n, distinct);
                            }
                            let mut line = "go".to_string();
                            for &t in perm {
                                line.push_str(&format!(" {} {}", names[t], vals[t]));
                            }
                            n += 1;
                            check_line(fl, stm, &line, own_time, own_inc, &mut baseline, &rep);
                        }
                    }
                }
            }
            (n, distinct)
        },
    );
    // ---- extreme values: every combination of the four clock fields over the edges of the u64
    // range (anything `parse::<u64>()` accepts is a clock value the command can carry); arithmetic
    // on them must neither panic (the harness is built with overflow checks, like `cargo run`)
    // nor produce a budget beyond the mover's time
    const EXTREME: [u64; 9] = [0, 1, 5000, u32::MAX as u64, u32::MAX as u64 + 1, i64::MAX as u64, i64::MAX as u64 + 1, u64::MAX - 1, u64::MAX];
    let mut eunits: Vec<(bool, u64)> = Vec::new();
    for stm in [true, false] {
        for &t in &EXTREME {
            eunits.push((stm, t));
        }
    }
    let eres: Vec<(u64, u64)> = par_map_init(
        &eunits,
        || (make_engine(true), make_engine(false)),
        |engines, &(stm, own_time)| {
            crate::search::verif::set_dry_run(true);
            let fl = if stm { &mut engines.0 } else { &mut engines.1 };
            let mut baseline: HashMap<(bool, u64, u64), u128> = HashMap::new();
            let mut n = 0u64;
            let mut distinct = 0u64;
            for &own_inc in &EXTREME {
                distinct += 1;
                for &opp_time in &EXTREME {
                    for &opp_inc in &EXTREME {
                        let vals = if stm { [own_time, opp_time, own_inc, opp_inc] } else { [opp_time, own_time, opp_inc, own_inc] };
                        for perm in &orders {
                            if rep.saturated() {
                                return (n, distinct);
                            }
                            let mut line = "go".to_string();
                            for &t in perm {
                                line.push_str(&format!(" {} {}", names[t], vals[t]));
                            }
                            n += 1;
                            check_line(fl, stm, &line, own_time, own_inc, &mut baseline, &rep);
                        }
                    }
                }
            }
            (n, distinct)
        },
    );
    let en: u64 = eres.iter().map(|r| r.0).sum();
    let edistinct: u64 = eres.iter().map(|r| r.1).sum();

    let dn: u64 = dres.iter().map(|r| r.0).sum();
    let ddistinct: u64 = dres.iter().map(|r| r.1).sum();
    let n: u64 = results.iter().map(|r| r.0).sum::<u64>() + dn + en;
    let distinct: u64 = results.iter().map(|r| r.1).sum::<u64>() + ddistinct + edistinct;
    let samples: Vec<String> = results.iter().flat_map(|r| r.2.iter().cloned()).take(8).collect();
    let cov = J::obj()
        .set("evaluations", n)
        .set("distinct_nontrivial", distinct)
        .set("rule", "grid: own time in 19 values (0 .. 24 h, dense around the 5 s reserve) x own increment in 6 values x opponent time 19 x opponent increment 6 x all 24 orders of the four token pairs x {no prefix, 'depth 5'} x both sides to move; plus every presence subset containing the mover's time in every order. A case is distinct by (side to move, own time, own increment); all other dimensions must not change the budget.")
        .set("dense_sweep", J::obj().set("own_time_from", 0u64).set("own_time_to", dense_to).set("step", 1u64).set("go_lines", dn).set("own_clock_points", ddistinct).set("increments_per_point", "0, 1, 100, 1000, 60000, time-1, time, time+1, time/2").set("opponent_clocks_per_point", 3u64).set("token_orders_per_point", 4u64))
        .set("extreme_values", J::obj().set("values_per_field", "0, 1, 5000, 2^32-1, 2^32, 2^63-1, 2^63, 2^64-2, 2^64-1").set("go_lines", en).set("own_clock_points", edistinct).set("rule", "all 9^4 combinations of the four fields x 4 token orders x both sides to move"))
        .set("exhaustive", true)
        .set("samples", samples);
    rep.finish(
        "exploration",
        cov,
        vec!["clock values beyond the dense sweep and between grid points behave like their neighbours (the allocation is piecewise linear: (time-5000)/25 + inc, capped)".into(), "tokens other than wtime/btime/winc/binc (movestogo, ...) are outside the property's quantifier and are not generated".into()],
        out,
    );
}

pub fn replay(stm: &str, line: &str, own_time: u64, own_inc: u64) -> i32 {
    let rep = Report::new("C12", "quick", 0);
    let white = stm == "w";
    let mut fl = make_engine(white);
    let mut base = HashMap::new();
    // the canonical line for this own clock establishes the baseline
    let canon = if white {
        format!("go wtime {} btime 1000 winc {} binc 0", own_time, own_inc)
    } else {
        format!("go wtime 1000 btime {} winc 0 binc {}", own_time, own_inc)
    };
    check_line(&mut fl, white, &canon, own_time, own_inc, &mut base, &rep);
    check_line(&mut fl, white, line, own_time, own_inc, &mut base, &rep);
    let v = rep.violations.lock().unwrap();
    for x in v.iter() {
        println!("REPLAY-VIOLATION {} :: {}", x.sig, x.text);
    }
    if v.is_empty() {
        println!("REPLAY-OK C12 {}", line);
        0
    } else {
        1
    }
}
