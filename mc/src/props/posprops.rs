//! C01 (move set = legal moves, check flag), C02 (successor = rules' successor, board
//! consistency) and C17a (quiescence move set = tactical moves) share one state visitor; each
//! property's run enables its own oracle.

use crate::board::Board;
use crate::eng::{self, guard};
use crate::graph::{explore, GraphStats, Tally, Visitor};
use crate::json::J;
use crate::move_gen::MoveGenerator;
use crate::par::par_map;
use crate::refchess::{Kind, Mv, Pos, Side};
use crate::report::Report;
use crate::roots;
use std::sync::Mutex;

#[derive(Clone, Copy, PartialEq, Eq, Debug)]
pub enum Which {
    C01,
    C02,
    C17,
    /// No oracle: only computes the successors on which subject and model agree (used by
    /// the properties that explore the same graph with their own oracle).
    Nav,
}

impl Which {
    pub fn id(self) -> &'static str {
        match self {
            Which::C01 => "C01",
            Which::C02 => "C02",
            Which::C17 => "C17",
            Which::Nav => "NAV",
        }
    }
    fn replay_cmd(self) -> &'static str {
        match self {
            Which::C01 => "c01-one",
            Which::C02 => "c02-one",
            Which::C17 => "c17-one",
            Which::Nav => "nav-one",
        }
    }
}

thread_local! {
    /// One long-lived move generator per worker thread: the generator the subject itself would
    /// keep using. A shared one would make any state hidden inside it (a cache) depend on thread
    /// timing; per thread, what it has seen before is exactly this thread's history.
    static TL_MG: MoveGenerator = MoveGenerator::new();
    /// The last boards this thread's generator was asked about (oldest first)
    static TL_HIST: std::cell::RefCell<std::collections::VecDeque<Board>> = std::cell::RefCell::new(std::collections::VecDeque::new());
}

const HIST_WINDOW: usize = 12;

fn tl_mg<R>(f: impl FnOnce(&MoveGenerator) -> R) -> R {
    TL_MG.with(|mg| f(mg))
}

fn hist_push(b: &Board) {
    TL_HIST.with(|h| {
        let mut h = h.borrow_mut();
        if h.len() == HIST_WINDOW {
            h.pop_front();
        }
        h.push_back(*b);
    });
}

fn hist_fens(current: &Board) -> String {
    TL_HIST.with(|h| {
        let mut v: Vec<String> = h.borrow().iter().map(eng::fen_of).collect();
        v.push(eng::fen_of(current));
        v.join("|")
    })
}

pub struct PosCheck<'a> {
    /// the states being checked descend from `Board::default()` by real moves (not from a FEN):
    /// a violation is then replayed by its move path from the default board
    pub from_default: std::sync::atomic::AtomicBool,
    pub rep: &'a Report,
    pub which: Which,
    pub tally: Tally,
    pub samples: Mutex<Vec<J>>,
    pub outcome_kinds: Mutex<std::collections::BTreeSet<String>>,
}

fn count_checkers(p: &Pos) -> usize {
    let us = p.stm;
    let them = us.other();
    let k = match p.king_sq(us) {
        Some(k) => k,
        None => return 0,
    };
    let mut n = 0;
    for s in 0..64usize {
        if let Some((side, kind)) = p.sq[s] {
            if side == them && kind != Kind::K {
                // does this piece alone (with all other pieces as blockers) attack the king?
                let mut q = p.clone();
                for t in 0..64usize {
                    if t != s {
                        if let Some((sd, _)) = q.sq[t] {
                            if sd == them {
                                // keep as a blocker but make it harmless: turn into own-side pawn-less blocker
                                q.sq[t] = Some((us, Kind::N));
                            }
                        }
                    }
                }
                q.sq[k as usize] = Some((us, Kind::K));
                if q.attacked(k, them) {
                    n += 1;
                }
            }
        }
    }
    n
}

impl<'a> PosCheck<'a> {
    pub fn new(_mg: &MoveGenerator, rep: &'a Report, which: Which) -> Self {
        PosCheck {
            from_default: std::sync::atomic::AtomicBool::new(false),
            rep,
            which,
            tally: Tally::default(),
            samples: Mutex::new(Vec::new()),
            outcome_kinds: Mutex::new(Default::default()),
        }
    }

    fn violate(&self, p_fen: &str, what: &str, text: String, detail: J) {
        if self.from_default.load(std::sync::atomic::Ordering::Relaxed) {
            let path = path_from_start(p_fen, 5);
            let cmd = match self.which {
                Which::C17 => "c17-path",
                Which::C02 => "c02-path",
                _ => "c01-path",
            };
            self.rep.violation(
                format!("{} default-board fen={} {}", self.which.id(), p_fen, what),
                format!("board reached from Board::default() by the moves [{}]: {}", path.as_ref().map(|m| m.iter().map(|x| x.uci()).collect::<Vec<_>>().join(" ")).unwrap_or_else(|| "?".into()), text),
                match path {
                    Some(m) => vec![cmd.to_string(), "--moves".into(), m.iter().map(|x| x.uci()).collect::<Vec<_>>().join(" ")],
                    None => vec![],
                },
                detail,
            );
            return;
        }
        self.rep.violation(
            format!("{} fen={} {}", self.which.id(), p_fen, what),
            text,
            vec![self.which.replay_cmd().to_string(), "--fen".into(), p_fen.to_string()],
            detail,
        );
    }

    /// The long-lived generator disagrees with the rules but a fresh one agrees: the answer
    /// depends on what the generator was asked before. Reported with the window of earlier
    /// questions; the replay asks a fresh generator the same questions in the same order.
    fn violate_history(&self, b: &Board, fen: &str, what: &str, text: String) {
        let cmd = match self.which {
            Which::C17 => "c17-hist",
            Which::C02 => "c02-hist",
            _ => "c01-hist",
        };
        self.rep.violation(
            format!("{} fen={} {} depends-on-earlier-calls", self.which.id(), fen, what),
            format!("{} -- but a fresh MoveGenerator answers correctly for this position: the generator's answer depends on the positions it was asked about before (the last {} are in the replay)", text, HIST_WINDOW),
            vec![cmd.to_string(), "--fens".into(), hist_fens(b)],
            J::Null,
        );
    }

    /// Checks one state; returns the successors on which subject and model agree.
    pub fn check_state(&self, b: &Board) -> Vec<(Board, u64)> {
        let r = self.check_state_inner(b);
        hist_push(b);
        r
    }

    fn check_state_inner(&self, b: &Board) -> Vec<(Board, u64)> {
        let p = match eng::pos_of(b) {
            Ok(p) => p,
            Err(_) if self.which == Which::Nav => return vec![],
            Err(e) => {
                // Only reachable for roots/class members, whose boards come from the FEN reader.
                self.rep.violation(
                    format!("{} setup {}", self.which.id(), eng::describe_key(&eng::key_of(b))),
                    format!("board built by the subject is internally inconsistent: {}", e),
                    vec![],
                    J::Null,
                );
                return vec![];
            }
        };
        let fen = p.fen4();
        crate::crumb::set(&[self.which.replay_cmd(), "--fen", &fen]);
        let legal = p.legal_moves();
        let in_check = p.in_check(p.stm);

        // ---- vacuity tallies (model side)
        if in_check {
            Tally::bump(&self.tally.in_check);
            if count_checkers(&p) >= 2 {
                Tally::bump(&self.tally.double_check);
            }
        }
        if legal.is_empty() {
            Tally::bump(if in_check { &self.tally.checkmates } else { &self.tally.stalemates });
        }
        if p.castle.iter().any(|c| *c) {
            Tally::bump(&self.tally.with_rights);
        }
        if p.ep.is_some() {
            Tally::bump(&self.tally.with_ep_target);
        }
        let mut has_castle = false;
        let mut has_ep = false;
        let mut has_promo = false;
        for m in &legal {
            let kind = p.sq[m.from as usize].map(|x| x.1);
            if kind == Some(Kind::K) && (m.from as i32 % 8 - m.to as i32 % 8).abs() == 2 {
                has_castle = true;
            }
            if kind == Some(Kind::P) && m.from % 8 != m.to % 8 && p.sq[m.to as usize].is_none() {
                has_ep = true;
            }
            if m.promo.is_some() {
                has_promo = true;
            }
        }
        if has_castle {
            Tally::bump(&self.tally.castle_moves);
        }
        if has_ep {
            Tally::bump(&self.tally.ep_moves);
        }
        if has_promo {
            Tally::bump(&self.tally.promo_moves);
        }

        // ---- subject: generate moves
        let em = match guard(|| tl_mg(|mg| mg.generate_moves(b))) {
            Ok(m) => m,
            Err(_) if self.which == Which::Nav => return vec![],
            Err(e) => {
                self.violate(&fen, "panic=generate_moves", format!("generate_moves: {}", e), J::Null);
                return vec![];
            }
        };
        let mut emv: Vec<Mv> = em.iter().map(eng::mv_of).collect();
        emv.sort();
        let mut lsorted = legal.clone();
        lsorted.sort();

        if self.which == Which::C01 {
            let mut dedup = emv.clone();
            dedup.dedup();
            let missing: Vec<Mv> = lsorted.iter().filter(|m| !dedup.contains(m)).cloned().collect();
            let extra: Vec<Mv> = dedup.iter().filter(|m| !lsorted.contains(m)).cloned().collect();
            let fresh_ok = (dedup.len() != emv.len() || !missing.is_empty() || !extra.is_empty())
                && guard(|| {
                    let mut f: Vec<Mv> = MoveGenerator::new().generate_moves(b).iter().map(eng::mv_of).collect();
                    f.sort();
                    f
                }) == Ok(lsorted.clone());
            if fresh_ok {
                self.violate_history(b, &fen, "moveset", format!("generated move set differs from the legal moves in {:?}: missing [{}] illegal [{}] duplicates {}", fen, eng::moves_text(&missing), eng::moves_text(&extra), emv.len() - dedup.len()));
            } else if dedup.len() != emv.len() || !missing.is_empty() || !extra.is_empty() {
                self.violate(
                    &fen,
                    "moveset",
                    format!(
                        "generated move set differs from the legal moves in {:?}: missing [{}] illegal [{}] duplicates {}",
                        fen,
                        eng::moves_text(&missing),
                        eng::moves_text(&extra),
                        emv.len() - dedup.len()
                    ),
                    J::obj()
                        .set("engine_moves", eng::moves_text(&emv))
                        .set("model_moves", eng::moves_text(&lsorted)),
                );
            }
            match guard(|| tl_mg(|mg| mg.is_in_check(b))) {
                Ok(flag) => {
                    if flag != in_check && guard(|| MoveGenerator::new().is_in_check(b)) == Ok(in_check) {
                        self.violate_history(b, &fen, "checkflag", format!("is_in_check = {} but the rules say {} in {:?}", flag, in_check, fen));
                    } else if flag != in_check {
                        self.violate(
                            &fen,
                            "checkflag",
                            format!("is_in_check = {} but the rules say {} in {:?}", flag, in_check, fen),
                            J::Null,
                        );
                    }
                }
                Err(e) => self.violate(&fen, "panic=is_in_check", e, J::Null),
            }
            let kind = format!(
                "moves={}{}{}{}{}",
                legal.len().min(3),
                if in_check { "+check" } else { "" },
                if has_castle { "+castle" } else { "" },
                if has_ep { "+ep" } else { "" },
                if has_promo { "+promo" } else { "" }
            );
            self.outcome_kinds.lock().unwrap().insert(kind);
        }

        // ---- subject: play every generated move that the rules allow
        let mut succs = Vec::with_capacity(em.len());
        for e in &em {
            let mv = eng::mv_of(e);
            if !lsorted.contains(&mv) {
                continue; // not a legal move: C01's business
            }
            let ms = p.make(mv);
            let es = match guard(|| b.clone_with_move(e)) {
                Ok(x) => x,
                Err(err) => {
                    if self.which == Which::C02 {
                        self.violate(&fen, &format!("move={} panic", mv.uci()), format!("make_move({}) in {:?}: {}", mv.uci(), fen, err), J::Null);
                    }
                    continue;
                }
            };
            let want = eng::key_of_pos(&ms);
            let got = eng::key_of(&es);
            let cons = eng::consistency(&es);
            if got != want || cons.is_err() {
                Tally::bump(&self.tally.skipped_divergent);
                if self.which == Which::C02 {
                    self.violate(
                        &fen,
                        &format!("move={}", mv.uci()),
                        format!(
                            "playing {} ({:?}) in {:?} gives {} but the rules give {:?}{}",
                            mv.uci(),
                            e.move_type,
                            fen,
                            eng::fen_of(&es),
                            ms.fen4(),
                            match &cons {
                                Err(c) => format!("; board inconsistent: {}", c),
                                Ok(()) => String::new(),
                            }
                        ),
                        J::obj()
                            .set("engine_successor", eng::describe_key(&got))
                            .set("model_successor", eng::describe_key(&want)),
                    );
                }
                continue;
            }
            succs.push((es, 0u64));
        }
        if self.which == Which::C02 {
            self.outcome_kinds.lock().unwrap().insert(format!(
                "succ{}{}{}",
                if has_castle { "+castle" } else { "" },
                if has_ep { "+ep" } else { "" },
                if has_promo { "+promo" } else { "" }
            ));
        }

        // ---- subject: quiescence move set
        if self.which == Which::C17 && !in_check {
            match guard(|| tl_mg(|mg| mg.generate_quiescence_moves(b))) {
                Ok(q) => {
                    let mut qv: Vec<Mv> = q.iter().map(eng::mv_of).collect();
                    qv.sort();
                    let mut tv = p.tactical_moves();
                    tv.sort();
                    let mut qd = qv.clone();
                    qd.dedup();
                    let fresh_ok = (qd != tv || qd.len() != qv.len())
                        && guard(|| {
                            let mut f: Vec<Mv> = MoveGenerator::new().generate_quiescence_moves(b).iter().map(eng::mv_of).collect();
                            f.sort();
                            f
                        }) == Ok(tv.clone());
                    if fresh_ok {
                        self.violate_history(b, &fen, "qmoves", format!("quiescence move set in {:?} (not in check) is [{}], the tactical moves are [{}]", fen, eng::moves_text(&qv), eng::moves_text(&tv)));
                    } else if qd != tv || qd.len() != qv.len() {
                        let missing: Vec<Mv> = tv.iter().filter(|m| !qd.contains(m)).cloned().collect();
                        let extra: Vec<Mv> = qd.iter().filter(|m| !tv.contains(m)).cloned().collect();
                        self.violate(
                            &fen,
                            "qmoves",
                            format!(
                                "quiescence move set in {:?} (not in check): missing [{}] extra [{}] duplicates {}",
                                fen,
                                eng::moves_text(&missing),
                                eng::moves_text(&extra),
                                qv.len() - qd.len()
                            ),
                            J::obj().set("engine", eng::moves_text(&qv)).set("model", eng::moves_text(&tv)),
                        );
                    }
                    self.outcome_kinds.lock().unwrap().insert(format!("q{}", tv.len().min(4)));
                }
                Err(e) => self.violate(&fen, "panic=generate_quiescence_moves", e, J::Null),
            }
        }

        {
            let mut s = self.samples.lock().unwrap();
            if s.len() < 6 && (s.is_empty() || has_ep || has_castle || has_promo || in_check) {
                s.push(J::obj().set("fen", fen.clone()).set("legal_moves", eng::moves_text(&lsorted)));
            }
        }
        succs
    }
}

impl<'a> Visitor for PosCheck<'a> {
    fn visit(&self, b: &Board, _depth: usize) -> Vec<(Board, u64)> {
        self.check_state(b)
    }
    fn stop(&self) -> bool {
        self.rep.saturated()
    }
}

/// Shortest move path (in the rules model) from the start position to the position with this
/// four-field FEN, at most `max` plies; only called when a violation is being reported.
pub fn path_from_start(fen4: &str, max: usize) -> Option<Vec<Mv>> {
    use std::collections::HashMap;
    let start = Pos::start();
    if start.fen4() == fen4 {
        return Some(vec![]);
    }
    let mut parent: HashMap<String, (String, Mv)> = HashMap::new();
    let mut layer: Vec<Pos> = vec![start.clone()];
    parent.insert(start.fen4(), (String::new(), Mv { from: 0, to: 0, promo: None }));
    for _ in 0..max {
        let mut next = Vec::new();
        for p in &layer {
            let pf = p.fen4();
            for m in p.legal_moves() {
                let n = p.make(m);
                let nf = n.fen4();
                if parent.contains_key(&nf) {
                    continue;
                }
                parent.insert(nf.clone(), (pf.clone(), m));
                if nf == fen4 {
                    let mut path = vec![];
                    let mut cur = nf;
                    while let Some((pp, mv)) = parent.get(&cur) {
                        if pp.is_empty() {
                            break;
                        }
                        path.push(*mv);
                        cur = pp.clone();
                    }
                    path.reverse();
                    return Some(path);
                }
                next.push(n);
            }
        }
        layer = next;
    }
    None
}

/// Replay of a violation found on a board that descends from `Board::default()`: the default
/// board, the moves played on it by the real `make_move`, then the same check of the final state.
pub fn replay_path(which: Which, moves: &str) -> i32 {
    let rep = Report::new(which.id(), "quick", 0);
    let pc = PosCheck::new(crate::eng::tl_mg(), &rep, which);
    pc.from_default.store(true, std::sync::atomic::Ordering::Relaxed);
    let mut b = Board::default();
    for t in moves.split_whitespace() {
        let ms = crate::eng::tl_mg().generate_moves(&b);
        match ms.iter().find(|m| m.to_algebraic() == t) {
            Some(m) => b = b.clone_with_move(m),
            None => {
                // the generator no longer offers the move: that is the violation's own business
                println!("REPLAY-VIOLATION {} default-board: move {} of the path is not generated", which.id(), t);
                return 1;
            }
        }
        // every board on the way is part of the case
        pc.check_state(&b);
    }
    if moves.trim().is_empty() {
        pc.check_state(&b);
    }
    let v = rep.violations.lock().unwrap();
    for x in v.iter() {
        println!("REPLAY-VIOLATION sig={}", x.sig);
    }
    if v.is_empty() {
        println!("REPLAY-OK {} default board + [{}]", which.id(), moves);
        0
    } else {
        1
    }
}

/// Builds the engine board of a model position and verifies the set-up took.
pub fn setup(p: &Pos, rep: &Report, id: &str) -> Option<Board> {
    match eng::board_of(p) {
        Ok(b) => {
            if eng::key_of(&b) == eng::key_of_pos(p) {
                Some(b)
            } else {
                rep.violation(
                    format!("{} setup fen={}", id, p.fen4()),
                    format!("the subject's FEN reader turns {:?} into {}", p.fen4(), eng::fen_of(&b)),
                    vec![],
                    J::Null,
                );
                None
            }
        }
        Err(e) => {
            rep.violation(format!("{} setup fen={}", id, p.fen4()), e, vec![], J::Null);
            None
        }
    }
}

pub struct Plan {
    pub root_depth: usize,
    pub classes: bool,
    pub closures: Vec<(&'static str, &'static str, u64)>,
}

fn stats_json(s: &GraphStats) -> J {
    J::obj()
        .set("roots", s.roots)
        .set("states", s.states)
        .set("transitions", s.transitions)
        .set("merges", s.merges)
        .set("max_depth", s.max_depth)
        .set("layer_sizes", s.layer_sizes.clone())
        .set("fixpoint_reached", s.fixpoint)
        .set("capped", s.capped)
}

pub fn run(which: Which, tier: &str, seed: u64, out: &str) {
    let rep = Report::new(which.id(), tier, seed);
    let thorough = tier == "thorough";
    let self_depth = if thorough { 4 } else { 3 };
    let model_nodes = match crate::refchess::self_test(self_depth) {
        Ok(n) => n,
        Err(e) => {
            eprintln!("MACHINERY ERROR: rules model failed its self-test: {}", e);
            std::process::exit(2);
        }
    };
    let mg = MoveGenerator::new();
    let pc = PosCheck::new(crate::eng::tl_mg(), &rep, which);
    let roots = match roots::all_roots() {
        Ok(r) => r,
        Err(e) => {
            eprintln!("MACHINERY ERROR: {}", e);
            std::process::exit(2);
        }
    };
    let mut coverage = J::obj();
    let mut total_states = 0u64;
    let mut total_transitions = 0u64;

    // ---- B(R, d): neighbourhoods of the roots
    let depth = match (which, thorough) {
        (_, false) => 3,
        (_, true) => 4,
    };
    let depth: usize = std::env::var("VERIF_ROOT_DEPTH").ok().and_then(|v| v.parse().ok()).unwrap_or(depth);
    let max_states: u64 = if thorough { 60_000_000 } else { 6_000_000 };
    let root_boards: Vec<(Board, u64)> = roots.iter().filter_map(|r| setup(&r.pos, &rep, which.id())).map(|b| (b, 0)).collect();
    let gs = explore(&root_boards, depth, max_states, &pc);
    if gs.capped {
        rep.cap(format!("root neighbourhood stopped after {} states (cap {} or violation saturation)", gs.states, max_states));
    }
    total_states += gs.states;
    total_transitions += gs.transitions;
    coverage.put("root_neighbourhood", stats_json(&gs).set("depth", depth).set("root_count", roots.len()));
    eprintln!("[{}] roots: {} states, {} transitions, {} merges, depth {} ({:.1}s)", which.id(), gs.states, gs.transitions, gs.merges, gs.max_depth, rep.elapsed());

    // ---- B(E, d): neighbourhoods of the extreme roots (move lists as long as chess allows)
    let extreme = match roots::extreme_roots() {
        Ok(r) => r,
        Err(e) => {
            eprintln!("MACHINERY ERROR: {}", e);
            std::process::exit(2);
        }
    };
    if !rep.saturated() {
        let d: usize = if thorough { 3 } else { 2 };
        let eb: Vec<(Board, u64)> = extreme.iter().filter_map(|r| setup(&r.pos, &rep, which.id())).map(|b| (b, 0)).collect();
        let ge = explore(&eb, d, max_states, &pc);
        if ge.capped {
            rep.cap(format!("extreme-root neighbourhood stopped after {} states (cap {} or violation saturation)", ge.states, max_states));
        }
        total_states += ge.states;
        total_transitions += ge.transitions;
        let longest = extreme.iter().map(|r| r.pos.legal_moves().len()).max().unwrap_or(0);
        let most_tactical = extreme.iter().filter(|r| !r.pos.in_check(r.pos.stm)).map(|r| r.pos.tactical_moves().len()).max().unwrap_or(0);
        let most_evasions = extreme.iter().filter(|r| r.pos.in_check(r.pos.stm)).map(|r| r.pos.legal_moves().len()).max().unwrap_or(0);
        coverage.put(
            "extreme_root_neighbourhood",
            stats_json(&ge).set("depth", d).set("root_count", extreme.len()).set("longest_legal_move_list", longest).set("longest_tactical_move_list", most_tactical).set("longest_evasion_list", most_evasions),
        );
        eprintln!("[{}] extreme roots: {} states, {} transitions, depth {} ({:.1}s)", which.id(), ge.states, ge.transitions, ge.max_depth, rep.elapsed());
    }

    // ---- the board the engine itself starts from: `Board::default()` (what `position startpos`
    // and `ucinewgame` use), explored on its own so that its states are never merged with boards
    // read from a FEN: anything a board carries besides its bitboards comes from its constructor
    if !rep.saturated() {
        let d: usize = if thorough { 6 } else { 5 };
        pc.from_default.store(true, std::sync::atomic::Ordering::Relaxed);
        let gd = explore(&[(Board::default(), 0)], d, max_states, &pc);
        pc.from_default.store(false, std::sync::atomic::Ordering::Relaxed);
        total_states += gd.states;
        total_transitions += gd.transitions;
        coverage.put("default_board_neighbourhood", stats_json(&gd).set("depth", d).set("root", "Board::default()"));
        eprintln!("[{}] Board::default(): {} states, {} transitions, depth {} ({:.1}s)", which.id(), gd.states, gd.transitions, gd.max_depth, rep.elapsed());
    }

    // ---- F: complete material classes (every state visited once; one-move transitions)
    let mut class_cov = Vec::new();
    for class in roots::classes(tier) {
        if rep.saturated() {
            break;
        }
        if !thorough && class.name == "F5" && which != Which::C01 {
            // quick tier: the double-check sub-class matters for the move set (C01); its members
            // are mostly in check (nothing for C17a to judge) and add no new move type for C02
            continue;
        }
        let counts: Vec<(u64, u64)> = par_map(&class.units, |u| {
            let mut n = 0u64;
            let mut t = 0u64;
            (class.gen)(*u, &mut |p: Pos| {
                if let Some(b) = setup(&p, &rep, which.id()) {
                    n += 1;
                    t += pc.check_state(&b).len() as u64;
                }
            });
            (n, t)
        });
        let n: u64 = counts.iter().map(|c| c.0).sum();
        let t: u64 = counts.iter().map(|c| c.1).sum();
        total_states += n;
        total_transitions += t;
        class_cov.push(
            J::obj()
                .set("class", class.name)
                .set("description", class.description)
                .set("work_units", class.units.len())
                .set("states", n)
                .set("transitions", t),
        );
        eprintln!("[{}] class {}: {} states, {} transitions ({:.1}s)", which.id(), class.name, n, t, rep.elapsed());
    }
    coverage.put("classes", J::Arr(class_cov));

    // ---- Cl: closures (fixpoints) for histories of any length (C02 only)
    if which == Which::C02 {
        let mut cl = Vec::new();
        let mut closures: Vec<(&str, &str, u64)> = vec![
            ("K+R(h1, right K) v k", "6k1/8/8/8/8/8/8/4K2R w K - 0 1", 3_000_000),
            ("K+P v k (all promotions)", "7k/8/8/8/8/8/P7/K7 w - - 0 1", 8_000_000),
        ];
        if thorough {
            closures.push(("K+P v k+p on adjacent files (en passant, all promotions both sides)", "4k3/3p4/8/8/8/8/4P3/4K3 w - - 0 1", 80_000_000));
            closures.push(("K+R+R with both rights v k", "4k3/8/8/8/8/8/8/R3K2R w KQ - 0 1", 40_000_000));
        }
        for (name, fen, cap) in closures {
            if rep.saturated() {
                break;
            }
            let p = Pos::from_fen(fen).unwrap();
            if let Err(e) = p.validity() {
                eprintln!("MACHINERY ERROR: closure root {} invalid: {}", fen, e);
                std::process::exit(2);
            }
            let mut rb = Vec::new();
            for q in [p.clone(), p.mirror()] {
                if let Some(b) = setup(&q, &rep, which.id()) {
                    rb.push((b, 0u64));
                }
            }
            let gs = explore(&rb, usize::MAX, cap, &pc);
            if !gs.fixpoint {
                rep.cap(format!("closure {:?} stopped after {} states without reaching its fixpoint (cap {})", name, gs.states, cap));
            }
            total_states += gs.states;
            total_transitions += gs.transitions;
            eprintln!("[C02] closure {}: {} states, {} transitions, fixpoint={} depth={} ({:.1}s)", name, gs.states, gs.transitions, gs.fixpoint, gs.max_depth, rep.elapsed());
            cl.push(stats_json(&gs).set("name", name).set("root", fen));
        }
        coverage.put("closures", J::Arr(cl));
    }
    if which == Which::C02 && !rep.saturated() {
        let mut sroots: Vec<roots::Root> = Vec::new();
        for r in roots.iter().chain(extreme.iter()) {
            sroots.push(roots::Root { name: r.name.clone(), pos: r.pos.clone() });
        }
        search_successor_part(&rep, &sroots, thorough);
        let nm = SEARCH_NODES_CHECKED.load(std::sync::atomic::Ordering::Relaxed);
        let nq = SEARCH_QNODES_CHECKED.load(std::sync::atomic::Ordering::Relaxed);
        total_transitions += nm + nq;
        eprintln!("[C02] positions created by the search itself: {} starts, {} main-search steps, {} quiescence steps ({:.1}s)", SEARCH_STARTS.load(std::sync::atomic::Ordering::Relaxed), nm, nq, rep.elapsed());
        coverage.put(
            "positions_created_by_the_search",
            J::obj()
                .set("start_states", SEARCH_STARTS.load(std::sync::atomic::Ordering::Relaxed))
                .set("main_search_steps_checked", nm)
                .set("quiescence_steps_checked", nq)
                .set("rule", "a real search (iterative deepening to depth 3, thorough 4, node-capped) of every state within one ply of the roots and the extreme roots, with the node traces on: every position the main search visits must be the result of a legal move in the position it was reached from (set membership in the model's successors), every position the quiescence search enters must be the model's successor for the move it just played; a board that is no chess position at all is reported as such"),
        );
    }

    // ---- C17(b): the move list the real quiescence search uses at every node it reaches
    if which == Which::C17 && !rep.saturated() {
        let mut troots: Vec<roots::Root> = Vec::new();
        for r in roots.iter().chain(extreme.iter()) {
            troots.push(roots::Root { name: r.name.clone(), pos: r.pos.clone() });
        }
        let tq = trace_part(crate::eng::tl_mg(), &rep, &troots, thorough);
        total_states += tq.0;
        total_transitions += tq.1;
        coverage.put(
            "quiescence_trace",
            J::obj()
                .set("start_states", tq.2)
                .set("distinct_quiescence_nodes_checked", tq.0)
                .set("of_which_in_check", tq.3)
                .set("moves_in_checked_lists", tq.1)
                .set("node_cap_per_start_state", tq.4)
                .set("members_of_classes_F1_F4_thorough_F3_with_something_to_examine_used_as_starts", CLASS_STARTS.load(std::sync::atomic::Ordering::Relaxed))
                .set("long_forcing_lines", J::obj().set("starts_within_two_plies_of_the_middlegame_roots", DEEP_STARTS.load(std::sync::atomic::Ordering::Relaxed)).set("deepest_nesting_of_quiescence_nodes_reached_plies", DEEPEST_QPLY.load(std::sync::atomic::Ordering::Relaxed)).set("children_that_returned_without_an_event_and_had_nothing_to_examine", SILENT_EMPTY.load(std::sync::atomic::Ordering::Relaxed)).set("rule", "every child a node searched must itself show up as a node (choose a move list, or leave by one of the marked exits) unless the clock had expired or the searcher had expanded that position before; a child with something to examine that returns without any of this examined nothing"))
                .set("nodes_judged_late_in_a_budget_that_is_just_enough", TIGHT_JUDGED.load(std::sync::atomic::Ordering::Relaxed))
                .set("nodes_whose_searched_moves_were_judged", EXAMINED_NODES.load(std::sync::atomic::Ordering::Relaxed))
                .set("quiescence_searches_traced_after_a_main_search_of_the_same_state", AFTER_SEARCH.load(std::sync::atomic::Ordering::Relaxed))
                .set("quiescence_searches_traced_with_a_game_history_in_which_every_successor_occurred_twice", WITH_HISTORY.load(std::sync::atomic::Ordering::Relaxed))
                .set("explanation", "from every state within the listed plies of the roots the real search_until_quiet runs (full window, node-capped) with the trace hook on; at every node it reaches, the move list it is about to iterate must equal every legal move (in check) or the tactical set (not in check), and its own in-check flag must agree with the rules; the examine/exit events say which of those moves the node really searched: all of them if it ran to the end of its loop, a subset if it was cut off (beta, clock), none if it stood pat or was mated"),
        );
    }

    let t = &pc.tally;
    coverage.put(
        "vacuity_guard",
        J::obj()
            .set("states_in_check", Tally::get(&t.in_check))
            .set("states_in_double_check", Tally::get(&t.double_check))
            .set("states_with_castling_move", Tally::get(&t.castle_moves))
            .set("states_with_en_passant_move", Tally::get(&t.ep_moves))
            .set("states_with_promotion_move", Tally::get(&t.promo_moves))
            .set("checkmates", Tally::get(&t.checkmates))
            .set("stalemates", Tally::get(&t.stalemates))
            .set("states_with_castling_rights", Tally::get(&t.with_rights))
            .set("states_with_en_passant_target", Tally::get(&t.with_ep_target))
            .set("successors_not_followed_because_subject_and_model_disagree", Tally::get(&t.skipped_divergent)),
    );
    let kinds: Vec<String> = pc.outcome_kinds.lock().unwrap().iter().cloned().collect();
    coverage.put("distinct_outcome_kinds", kinds.len());
    coverage.put("outcome_kinds", kinds);
    coverage.put("states", total_states);
    coverage.put("transitions", total_transitions);
    coverage.put("traces_validated_against_impl", total_transitions);
    coverage.put(
        "explanation",
        "every state is a position held by the subject's own Board; every transition is the subject's generate_moves + clone_with_move; the model is consulted per state/transition, so each counted transition is a model step validated against the implementation",
    );
    coverage.put("model_self_test", J::obj().set("perft_depth", self_depth).set("perft_nodes_matching_published_values", model_nodes));
    coverage.put("samples", J::Arr(pc.samples.lock().unwrap().clone()));
    coverage.put("exhaustive", false);
    coverage.put("bound", format!("every state within {} plies of {} roots; complete classes as listed; closures to fixpoint where reported", depth, roots.len()));

    rep.finish(
        "model_checking",
        coverage,
        vec![
            "the reference rules model (refchess) is correct; it is validated on every run against published perft values and shares no code or technique with the subject".into(),
            "positions outside the explored neighbourhoods, classes and closures are not covered".into(),
        ],
        out,
    );
}

// ---------------------------------------------------------------------------------------------
// C02, the positions the search itself creates. The exploration above walks the graph through
// clone_with_move; a search may apply moves its own way (make / unmake on a scratch board, a
// short cut for captures). Every position a real search visits -- main search and quiescence --
// must be the successor the rules prescribe of the position it was reached from.

pub static SEARCH_NODES_CHECKED: std::sync::atomic::AtomicU64 = std::sync::atomic::AtomicU64::new(0);
pub static SEARCH_QNODES_CHECKED: std::sync::atomic::AtomicU64 = std::sync::atomic::AtomicU64::new(0);
pub static SEARCH_STARTS: std::sync::atomic::AtomicU64 = std::sync::atomic::AtomicU64::new(0);

/// One traced search of `b` (iterative deepening to `depth`, node cap): problems found, as text.
pub fn search_successor_problems(s: &mut crate::search::Searcher, b: &Board, depth: u8, cap: u64) -> Result<(u64, u64, Vec<String>), String> {
    use std::collections::HashSet;
    crate::timer::verif::set_node_clock(Some(1));
    crate::search::verif::set_repetition_trace(true);
    crate::search::verif::set_quiescence_trace(true);
    let r = guard(|| s.find_best_move(b, depth, Some(std::time::Duration::from_millis(cap))));
    let nodes = crate::search::verif::take_repetition_trace();
    let qtrace = crate::search::verif::take_quiescence_trace();
    let qevents = crate::search::verif::take_quiescence_events();
    crate::search::verif::set_repetition_trace(false);
    crate::search::verif::set_quiescence_trace(false);
    if let Err(e) = r {
        return Err(e);
    }
    let mut problems = Vec::new();
    // main search: depth-first order, a node at ply p was reached from the latest node at ply p-1
    let mut stack: Vec<(Board, Option<HashSet<eng::EKey>>)> = Vec::new();
    let mut n_main = 0u64;
    for (nb, ply, _) in &nodes {
        let ply = *ply as usize;
        if ply > stack.len() {
            break; // the trace does not nest as expected (hooks moved): not judged
        }
        stack.truncate(ply);
        if ply > 0 {
            let parent = &mut stack[ply - 1];
            if parent.1.is_none() {
                parent.1 = Some(match eng::pos_of(&parent.0) {
                    Ok(pp) => pp.legal_moves().iter().map(|m| eng::key_of_pos(&pp.make(*m))).collect(),
                    Err(_) => HashSet::new(),
                });
            }
            n_main += 1;
            if !parent.1.as_ref().unwrap().contains(&eng::key_of(nb)) && problems.len() < 3 {
                problems.push(format!(
                    "the main search went from {:?} (ply {}) to {:?}, which is not the result of any legal move there{}",
                    eng::fen_of(&parent.0),
                    ply - 1,
                    eng::describe_key(&eng::key_of(nb)),
                    if eng::pos_of(nb).is_err() { " and is no chess position at all (a square holding two men, or a colour without its piece)" } else { "" }
                ));
            }
        }
        stack.push((*nb, None));
    }
    // quiescence: a node that searched move m entered the child next
    let mut qstack: Vec<usize> = Vec::new();
    let mut next = 0usize;
    let mut pending: Option<(usize, crate::moves::Move)> = None;
    let mut n_q = 0u64;
    for (kind, mv) in &qevents {
        if *kind == crate::search::verif::Q_ENTER {
            if next >= qtrace.len() {
                break;
            }
            if let Some((pi, m)) = pending.take() {
                n_q += 1;
                let child = &qtrace[next].0;
                let want = eng::pos_of(&qtrace[pi].0).ok().map(|pp| pp.make(eng::mv_of(&m)));
                let ok = match &want {
                    Some(w) => eng::key_of_pos(w) == eng::key_of(child),
                    None => false,
                };
                if !ok && problems.len() < 3 {
                    problems.push(format!(
                        "the quiescence search played {} in {:?} and went on with {:?}; the rules give {:?}",
                        eng::mv_of(&m).uci(),
                        eng::fen_of(&qtrace[pi].0),
                        eng::describe_key(&eng::key_of(child)),
                        want.map(|w| w.fen4()).unwrap_or_else(|| "(the node's own board is no chess position)".into())
                    ));
                }
            }
            qstack.push(next);
            next += 1;
        } else if *kind == crate::search::verif::Q_EXAMINE {
            match (qstack.last(), mv) {
                (Some(top), Some(m)) => pending = Some((*top, *m)),
                _ => break,
            }
        } else {
            pending = None;
            if qstack.pop().is_none() {
                break;
            }
        }
    }
    Ok((n_main, n_q, problems))
}

fn search_successor_part(rep: &Report, roots: &[roots::Root], thorough: bool) {
    use crate::search::Searcher;
    use std::collections::HashSet;
    use std::sync::atomic::Ordering;
    let mg = crate::eng::tl_mg();
    let mut starts: Vec<Board> = Vec::new();
    let mut seen = HashSet::new();
    for r in roots {
        for b in crate::props::c05::neighbourhood(mg, rep, &r.pos.fen(0, 1), 1) {
            if seen.insert(eng::key_of(&b)) {
                starts.push(b);
            }
        }
    }
    let depth: u8 = if thorough { 4 } else { 3 };
    let cap: u64 = if thorough { 20_000 } else { 4_000 };
    SEARCH_STARTS.store(starts.len() as u64, Ordering::Relaxed);
    crate::par::par_map_init(
        &starts,
        || None::<Searcher>,
        |s, b| {
            if rep.saturated() {
                return;
            }
            if s.is_none() {
                *s = Some(Searcher::new());
            }
            let args = vec!["c02-search-one".to_string(), "--fen".into(), eng::fen_of(b), "--depth".into(), depth.to_string(), "--cap".into(), cap.to_string()];
            crate::crumb::set_owned(&args);
            match search_successor_problems(s.as_mut().unwrap(), b, depth, cap) {
                Err(e) => {
                    *s = None;
                    rep.violation(format!("C02 search fen={} panic", eng::fen_of(b)), format!("search of {:?} to depth {}: {}", eng::fen_of(b), depth, e), args, J::Null);
                }
                Ok((n_main, n_q, problems)) => {
                    SEARCH_NODES_CHECKED.fetch_add(n_main, Ordering::Relaxed);
                    SEARCH_QNODES_CHECKED.fetch_add(n_q, Ordering::Relaxed);
                    if let Some(t) = problems.into_iter().next() {
                        // the search may have left its own state inconsistent: a new searcher next
                        *s = None;
                        rep.violation(format!("C02 search fen={} successor", eng::fen_of(b)), format!("search of {:?} to depth {} (node cap {}): {}", eng::fen_of(b), depth, cap, t), args, J::Null);
                    }
                }
            }
        },
    );
}

/// Replay: the same traced search on a fresh searcher.
pub fn replay_search_one(fen: &str, depth: u8, cap: u64) -> i32 {
    let b = match eng::board_of_fen(fen) {
        Ok(b) => b,
        Err(e) => {
            println!("REPLAY-ERROR bad fen {:?}: {}", fen, e);
            return 2;
        }
    };
    let mut s = crate::search::Searcher::new();
    match search_successor_problems(&mut s, &b, depth, cap) {
        Err(e) => {
            println!("REPLAY-VIOLATION C02 search fen={} panic :: {}", fen, e);
            1
        }
        Ok((_, _, problems)) => {
            if let Some(t) = problems.first() {
                println!("REPLAY-VIOLATION C02 search fen={} successor :: {}", fen, t);
                1
            } else {
                println!("REPLAY-OK C02 every position the search of {} visits is the prescribed successor", fen);
                0
            }
        }
    }
}

/// Replay of one state: re-executes the oracle on a single FEN and prints what it sees.
pub fn replay_one(which: Which, fen: &str) -> i32 {
    let rep = Report::new(which.id(), "quick", 0);
    let mg = MoveGenerator::new();
    let pc = PosCheck::new(crate::eng::tl_mg(), &rep, which);
    let p = match Pos::from_fen(fen) {
        Ok(p) => p,
        Err(e) => {
            eprintln!("bad FEN: {}", e);
            return 2;
        }
    };
    if let Err(e) = p.validity() {
        eprintln!("not a valid position: {}", e);
        return 2;
    }
    if let Some(b) = setup(&p, &rep, which.id()) {
        pc.check_state(&b);
    }
    let v = rep.violations.lock().unwrap();
    for x in v.iter() {
        println!("REPLAY-VIOLATION sig={} :: {}", x.sig, x.text);
    }
    if v.is_empty() {
        println!("REPLAY-OK {} {}", which.id(), fen);
        0
    } else {
        1
    }
}

#[allow(dead_code)]
fn _unused(_: Side) {}

/// C17(b): runs the real quiescence search from every state near the roots with the trace hook
/// on and checks the move list of every distinct node reached.
/// Returns (distinct nodes checked, moves in their lists, start states, nodes in check, cap).
fn trace_part(mg: &MoveGenerator, rep: &Report, roots: &[roots::Root], thorough: bool) -> (u64, u64, u64, u64, u64) {
    use crate::search::Searcher;
    use std::collections::HashSet;
    use std::sync::atomic::{AtomicU64, Ordering};
    use std::time::Duration;
    let layers = if thorough { 2 } else { 1 };
    let cap: u64 = if thorough { 3000 } else { 800 };
    let mut starts: Vec<Board> = Vec::new();
    let mut seen_start = HashSet::new();
    for r in roots {
        for b in crate::props::c05::neighbourhood(mg, rep, &r.pos.fen(0, 1), layers) {
            if seen_start.insert(eng::key_of(&b)) {
                starts.push(b);
            }
        }
    }
    const SH: usize = 64;
    let seen: Vec<Mutex<HashSet<eng::EKey>>> = (0..SH).map(|_| Mutex::new(HashSet::new())).collect();
    let nodes = AtomicU64::new(0);
    let moves = AtomicU64::new(0);
    let checks = AtomicU64::new(0);
    let exam_nodes = AtomicU64::new(0);
    let root_missing = AtomicU64::new(0);
    let visit = |s: &mut Option<Searcher>, b: &Board, phases: u8, cap: u64| {
            if rep.saturated() {
                return;
            }
            if s.is_none() {
                *s = Some(Searcher::new());
                EXPANDED.with(|e| e.borrow_mut().clear());
            }
            // phase 0: quiescence from this state as it is; phase 1: the same after a main search of
            // the state on the same searcher (table, killers and history filled by it): what an
            // earlier search left behind must not change which moves a quiescence node searches
            for phase in 0..phases {
            if phase == 2 {
                if rep.saturated() {
                    return;
                }
                // a game history in which every position one move away has already occurred twice:
                // the rule for repeated positions belongs to the main search; which moves a
                // quiescence node searches does not depend on the game so far
                let pre = guard(|| {
                    let mut f = Searcher::new();
                    for m in crate::eng::tl_mg().generate_moves(b) {
                        let c = b.clone_with_move(&m);
                        f.push_position(&c);
                        f.push_position(&c);
                    }
                    f
                });
                match pre {
                    Ok(f) => *s = Some(f),
                    Err(_) => {
                        *s = None;
                        return;
                    }
                }
                WITH_HISTORY.fetch_add(1, std::sync::atomic::Ordering::Relaxed);
            }
            if phase == 1 {
                if rep.saturated() {
                    return;
                }
                // a fresh searcher, so that the case is exactly: main search of b, quiescence of b
                crate::timer::verif::set_node_clock(Some(1));
                let pre = guard(|| {
                    let mut f = Searcher::new();
                    f.find_best_move(b, 2, Some(Duration::from_millis(2500)));
                    f
                });
                match pre {
                    Ok(f) => *s = Some(f),
                    Err(_) => {
                        *s = None;
                        return;
                    }
                }
                AFTER_SEARCH.fetch_add(1, std::sync::atomic::Ordering::Relaxed);
            }
            crate::timer::verif::set_node_clock(Some(1));
            crate::search::verif::set_quiescence_trace(true);
            let r = guard(|| s.as_mut().unwrap().verif_quiesce(b, Some(Duration::from_millis(cap))));
            let trace = crate::search::verif::take_quiescence_trace();
            let events = crate::search::verif::take_quiescence_events();
            crate::search::verif::set_quiescence_trace(false);
            if r.is_ok() {
                // the start state itself is a quiescence node with the full window: nothing can cut
                // it off before it looks at its moves. If it has moves to examine (the rules model
                // says so) and never reached the point where a node chooses its list, it examined none.
                let root_traced = trace.first().map(|t| eng::key_of(&t.0) == eng::key_of(b)).unwrap_or(false);
                if !root_traced {
                    if let Ok(p) = eng::pos_of(b) {
                        let in_check = p.in_check(p.stm);
                        let want = if in_check { p.legal_moves() } else { p.tactical_moves() };
                        if !want.is_empty() {
                            root_missing.fetch_add(1, Ordering::Relaxed);
                            rep.violation(
                                format!("C17 fen={} root-not-expanded", p.fen4()),
                                format!(
                                    "quiescence search of {:?} with the full window ({}): the search returned without choosing any move list for this position, i.e. it examined none of [{}]",
                                    p.fen4(),
                                    if in_check { "side to move in check: every legal move is to be examined" } else { "not in check: captures, promotions and checks are to be examined" },
                                    eng::moves_text(&want)
                                ),
                                vec!["c17-root-one".to_string(), "--fen".into(), eng::fen_of(b), "--cap".into(), cap.to_string(), "--after-search".into(), phase.to_string()],
                                J::Null,
                            );
                        }
                    }
                }
                // a child the parent searched that came back without a single event took a way out
                // that the search does not have (every way out of a node is marked): if the clock
                // had not expired, the searcher had never expanded that position before and the
                // position has something to examine, it examined nothing of it
                if phase == 0 {
                    let stopped = crate::timer::verif::first_stop().is_some() || events.iter().any(|e| e.0 == crate::search::verif::Q_EXIT_STOPPED);
                    let (silent, deepest) = silent_children(&trace, &events);
                    DEEPEST_QPLY.fetch_max(deepest as u64, Ordering::Relaxed);
                    if !stopped {
                        for (i, m, child) in silent {
                            let ck = eng::key_of(&child);
                            if EXPANDED.with(|e| e.borrow().contains(&fingerprint(&ck))) || trace.iter().any(|t| eng::key_of(&t.0) == ck) {
                                continue;
                            }
                            let cp = match eng::pos_of(&child) {
                                Ok(p) => p,
                                Err(_) => continue,
                            };
                            let in_check = cp.in_check(cp.stm);
                            let want = if in_check { cp.legal_moves() } else { cp.tactical_moves() };
                            if want.is_empty() {
                                SILENT_EMPTY.fetch_add(1, Ordering::Relaxed);
                                continue;
                            }
                            rep.violation(
                                format!("C17 start={} node={} child-not-expanded", eng::fen_of(b), cp.fen4()),
                                format!(
                                    "quiescence search from {:?}: the node {:?} searched {} and the position after it, {:?} ({}), came back without choosing a move list or taking any of the search's exits (no cut-off, no stand-pat, clock not expired, never expanded before): none of its [{}] was examined",
                                    eng::fen_of(b), eng::fen_of(&trace[i].0), eng::mv_of(&m).uci(), cp.fen4(),
                                    if in_check { "side to move in check" } else { "not in check" },
                                    eng::moves_text(&want)
                                ),
                                vec!["c17-silent-one".to_string(), "--fen".into(), eng::fen_of(b), "--node".into(), cp.fen4(), "--cap".into(), cap.to_string()],
                                J::Null,
                            );
                            break;
                        }
                    }
                    EXPANDED.with(|e| {
                        let mut e = e.borrow_mut();
                        for t in &trace {
                            e.insert(fingerprint(&eng::key_of(&t.0)));
                        }
                    });
                    if EXPANDED.with(|e| e.borrow().len()) > 4_000_000 {
                        *s = None; // a new searcher (and a new memory of what it expanded) for the next start
                    }
                }
                // which moves each node really searched (the list above is what it chose)
                let (judged, problems) = examined_problems(&trace, &events);
                exam_nodes.fetch_add(judged, Ordering::Relaxed);
                if let Some((i, text)) = problems.into_iter().next() {
                    let nf = eng::fen_of(&trace[i].0);
                    rep.violation(
                        format!("C17 start={} node={} examined", eng::fen_of(b), nf),
                        format!("quiescence search from {:?}, node {:?}: {}", eng::fen_of(b), nf, text),
                        vec!["c17-exam-one".to_string(), "--fen".into(), eng::fen_of(b), "--node".into(), nf, "--cap".into(), cap.to_string(), "--after-search".into(), phase.to_string()],
                        J::Null,
                    );
                }
            }
            if r.is_err() {
                *s = None;
                rep.violation(format!("C17 fen={} panic=quiescence", eng::fen_of(b)), format!("quiescence search from {:?}: {}", eng::fen_of(b), r.err().unwrap()), vec![], J::Null);
                return;
            }
            for (tb, flag, list) in trace {
                let k = eng::key_of(&tb);
                let h = (k.colors[0] ^ k.colors[1].rotate_left(17) ^ k.pieces[0]) as usize % SH;
                if !seen[h].lock().unwrap().insert(k) {
                    continue;
                }
                let p = match eng::pos_of(&tb) {
                    Ok(p) => p,
                    Err(_) => continue,
                };
                let fen = p.fen4();
                let in_check = p.in_check(p.stm);
                let mut want = if in_check { p.legal_moves() } else { p.tactical_moves() };
                want.sort();
                let mut got: Vec<Mv> = list.iter().map(eng::mv_of).collect();
                got.sort();
                nodes.fetch_add(1, Ordering::Relaxed);
                moves.fetch_add(got.len() as u64, Ordering::Relaxed);
                if in_check {
                    checks.fetch_add(1, Ordering::Relaxed);
                }
                let mut dedup = got.clone();
                dedup.dedup();
                if flag != in_check || dedup != want || dedup.len() != got.len() {
                    let missing: Vec<Mv> = want.iter().filter(|m| !dedup.contains(m)).cloned().collect();
                    let extra: Vec<Mv> = dedup.iter().filter(|m| !want.contains(m)).cloned().collect();
                    rep.violation(
                        format!("C17 fen={} qnode", fen),
                        format!(
                            "quiescence node {:?} ({}): the search examines [{}] but should examine {}: missing [{}] extra [{}] duplicates {}; its in-check flag is {}",
                            fen,
                            if in_check { "side to move in check" } else { "not in check" },
                            eng::moves_text(&got),
                            if in_check { "every legal move" } else { "exactly the captures, promotions and checks" },
                            eng::moves_text(&missing),
                            eng::moves_text(&extra),
                            got.len() - dedup.len(),
                            flag
                        ),
                        // replayed in its context (same start, same preparation, same budget): what a
                        // node does may depend on where in the search and in the budget it is visited
                        vec!["c17-trace-ctx".to_string(), "--fen".into(), eng::fen_of(b), "--node".into(), fen.clone(), "--cap".into(), cap.to_string(), "--after-search".into(), phase.to_string()],
                        J::Null,
                    );
                }
            }
            }
            if phases > 1 && !rep.saturated() {
                // the same search once more with a budget that is just enough
                *s = Some(Searcher::new());
                let (judged, problem) = tight_budget_problem(s.as_mut().unwrap(), b, cap);
                TIGHT_JUDGED.fetch_add(judged, Ordering::Relaxed);
                if let Some((_, node, text)) = problem {
                    rep.violation(format!("C17 start={} tight-budget node={}", eng::fen_of(b), node), text, vec!["c17-tight-one".to_string(), "--fen".into(), eng::fen_of(b), "--cap".into(), cap.to_string()], J::Null);
                }
            }
            if phases > 1 {
                *s = None;
            }
    };
    crate::par::par_map_init(&starts, || None::<Searcher>, |s, b| visit(s, b, 3, cap));
    // long forcing lines: from every state within two plies of the middlegame roots the quiescence
    // search runs with a node cap large enough to follow its longest lines to their end (dozens of
    // plies past the horizon), where a cap on the number of plies would show
    {
        let deep_cap: u64 = if thorough { 200_000 } else { 30_000 };
        let mut deep_starts: Vec<Board> = Vec::new();
        let mut seen_deep = HashSet::new();
        for r in roots {
            let middlegame = (r.name.starts_with("perft position") || r.name.starts_with("italian") || r.name.starts_with("open sicilian")) && !r.name.ends_with("[mirrored]");
            if !middlegame {
                continue;
            }
            for b in crate::props::c05::neighbourhood(mg, rep, &r.pos.fen(0, 1), 2) {
                if seen_deep.insert(eng::key_of(&b)) {
                    deep_starts.push(b);
                }
            }
        }
        crate::par::par_map_init(&deep_starts, || None::<Searcher>, |s, b| visit(s, b, 1, deep_cap));
        DEEP_STARTS.store(deep_starts.len() as u64, Ordering::Relaxed);
        eprintln!("[C17] long forcing lines: {} starts with a cap of {} nodes, deepest quiescence nesting so far {} plies ({:.1}s)", deep_starts.len(), deep_cap, DEEPEST_QPLY.load(Ordering::Relaxed), rep.elapsed());
    }
    // complete small-material classes as starts (as they are, no earlier search): endings with a
    // lone minor piece, promotions with and without capture, castling; a search that decides such
    // a position without looking at its moves must still look at them
    let mut class_starts = 0u64;
    for class in roots::classes(if thorough { "thorough" } else { "quick" }) {
        if !["F1", "F3", "F4"].contains(&class.name) || (class.name == "F3" && !thorough) || rep.saturated() {
            continue;
        }
        let counts: Vec<u64> = crate::par::par_map_init(
            &class.units,
            || None::<Searcher>,
            |s, u| {
                let mut n = 0u64;
                (class.gen)(*u, &mut |p: Pos| {
                    if !p.in_check(p.stm) && p.tactical_moves().is_empty() {
                        return; // nothing to examine: nothing to judge
                    }
                    if let Some(b) = setup(&p, rep, "C17") {
                        n += 1;
                        visit(s, &b, 1, cap);
                    }
                });
                n
            },
        );
        class_starts += counts.iter().sum::<u64>();
        eprintln!("[C17] quiescence trace from class {}: {} starts ({:.1}s)", class.name, counts.iter().sum::<u64>(), rep.elapsed());
    }
    CLASS_STARTS.store(class_starts, Ordering::Relaxed);
    EXAMINED_NODES.store(exam_nodes.load(Ordering::Relaxed), Ordering::Relaxed);
    (nodes.load(Ordering::Relaxed), moves.load(Ordering::Relaxed), starts.len() as u64, checks.load(Ordering::Relaxed), cap)
}

/// Children of traced nodes that produced no event at all: the parent searched the move, but the
/// child never reached the point where a quiescence node chooses its move list, nor any of its
/// exits. Returns (parent node index, move, child board) for each, and the deepest nesting seen.
pub fn silent_children(trace: &[(Board, bool, Vec<crate::moves::Move>)], events: &[(u8, Option<crate::moves::Move>)]) -> (Vec<(usize, crate::moves::Move, Board)>, usize) {
    use crate::search::verif::{Q_ENTER, Q_EXAMINE};
    let mut out = Vec::new();
    let mut stack: Vec<usize> = Vec::new();
    let mut next = 0usize;
    let mut pending: Option<(usize, crate::moves::Move)> = None;
    let mut deepest = 0usize;
    for (kind, mv) in events {
        if *kind != Q_ENTER {
            if let Some((i, m)) = pending.take() {
                out.push((i, m, trace[i].0.clone_with_move(&m)));
            }
        } else {
            pending = None;
        }
        if *kind == Q_ENTER {
            if next >= trace.len() {
                return (Vec::new(), deepest);
            }
            stack.push(next);
            deepest = deepest.max(stack.len());
            next += 1;
        } else if *kind == Q_EXAMINE {
            match (stack.last(), mv) {
                (Some(top), Some(m)) => pending = Some((*top, *m)),
                _ => return (Vec::new(), deepest),
            }
        } else if stack.pop().is_none() {
            return (Vec::new(), deepest);
        }
    }
    (out, deepest)
}

thread_local! {
    /// Fingerprints of the positions this thread's phase-0 searcher has expanded as quiescence
    /// nodes since it was created (a position met again may legitimately be answered from memory)
    static EXPANDED: std::cell::RefCell<std::collections::HashSet<u64>> = std::cell::RefCell::new(std::collections::HashSet::new());
}

fn fingerprint(k: &eng::EKey) -> u64 {
    let mut h = k.colors[0].wrapping_mul(0x9E3779B97F4A7C15) ^ k.colors[1].rotate_left(23);
    for p in k.pieces.iter() {
        h = (h ^ *p).wrapping_mul(0xC2B2AE3D27D4EB4F).rotate_left(31);
    }
    h ^ ((k.stm as u64) << 1) ^ ((k.castle as u64) << 8) ^ ((k.ep as u64) << 16)
}

/// Starts of the long-forcing-lines stage
pub static DEEP_STARTS: std::sync::atomic::AtomicU64 = std::sync::atomic::AtomicU64::new(0);
/// Deepest nesting of quiescence nodes seen in any traced search of the last run
pub static DEEPEST_QPLY: std::sync::atomic::AtomicU64 = std::sync::atomic::AtomicU64::new(0);
/// Children that returned without any event and had nothing to examine / something to examine
pub static SILENT_EMPTY: std::sync::atomic::AtomicU64 = std::sync::atomic::AtomicU64::new(0);

/// A budget that is just enough: the quiescence search from `b` runs once without a clock that
/// matters (T nodes), then again with a budget of T + 1 nodes of the node clock, so that its last
/// nodes are visited "late in the budget" although the clock never expires. The lists chosen at
/// the nodes of the last fifth of that second search are judged like any other (nothing in the
/// property depends on how much of a budget is left). Returns (nodes judged, first problem).
pub fn tight_budget_problem(s: &mut crate::search::Searcher, b: &Board, cap: u64) -> (u64, Option<(u64, String, String)>) {
    crate::timer::verif::set_node_clock(Some(1));
    let t = match guard(|| {
        s.verif_quiesce(b, Some(std::time::Duration::from_millis(cap)));
        (s.verif_nodes(), crate::timer::verif::first_stop().is_some())
    }) {
        Ok((n, false)) if n >= 16 => n,
        _ => return (0, None),
    };
    let budget = t + 1;
    crate::search::verif::set_quiescence_trace(true);
    let r = guard(|| s.verif_quiesce(b, Some(std::time::Duration::from_millis(budget))));
    let trace = crate::search::verif::take_quiescence_trace();
    let _ = crate::search::verif::take_quiescence_events();
    crate::search::verif::set_quiescence_trace(false);
    if r.is_err() || crate::timer::verif::first_stop().is_some() {
        return (0, None);
    }
    let from = trace.len() * 4 / 5;
    let mut judged = 0u64;
    for (tb, flag, list) in trace.iter().skip(from) {
        let p = match eng::pos_of(tb) {
            Ok(p) => p,
            Err(_) => continue,
        };
        let in_check = p.in_check(p.stm);
        let mut want = if in_check { p.legal_moves() } else { p.tactical_moves() };
        want.sort();
        let mut got: Vec<Mv> = list.iter().map(eng::mv_of).collect();
        got.sort();
        judged += 1;
        if *flag != in_check || got != want {
            let missing: Vec<Mv> = want.iter().filter(|m| !got.contains(m)).cloned().collect();
            let extra: Vec<Mv> = got.iter().filter(|m| !want.contains(m)).cloned().collect();
            return (
                judged,
                Some((
                    budget,
                    p.fen4(),
                    format!(
                        "quiescence search from {:?} with a budget of {} nodes (it needs {}; the clock never expires): late in the budget the node {:?} ({}) examines [{}]: missing [{}] extra [{}]",
                        eng::fen_of(b), budget, t, p.fen4(), if in_check { "in check" } else { "not in check" }, eng::moves_text(&got), eng::moves_text(&missing), eng::moves_text(&extra)
                    ),
                )),
            );
        }
    }
    (judged, None)
}

pub static TIGHT_JUDGED: std::sync::atomic::AtomicU64 = std::sync::atomic::AtomicU64::new(0);

pub fn replay_tight_one(fen: &str, cap: u64) -> i32 {
    let b = eng::board_of_fen(fen).unwrap();
    let mut s = crate::search::Searcher::new();
    match tight_budget_problem(&mut s, &b, cap) {
        (_, Some((_, node, _))) => {
            println!("REPLAY-VIOLATION C17 start={} tight-budget node={} :: a node visited late in a budget that is just enough examines another set of moves", fen, node);
            1
        }
        _ => {
            println!("REPLAY-OK C17 tight budget {}", fen);
            0
        }
    }
}

/// Members of complete material classes used as quiescence trace starts
pub static CLASS_STARTS: std::sync::atomic::AtomicU64 = std::sync::atomic::AtomicU64::new(0);

/// Quiescence searches traced with a game history in which every successor occurred twice
pub static WITH_HISTORY: std::sync::atomic::AtomicU64 = std::sync::atomic::AtomicU64::new(0);

/// Quiescence searches traced after a main search of the same state on the same searcher
pub static AFTER_SEARCH: std::sync::atomic::AtomicU64 = std::sync::atomic::AtomicU64::new(0);

/// Nodes whose examined-move events were judged in the last trace_part run
pub static EXAMINED_NODES: std::sync::atomic::AtomicU64 = std::sync::atomic::AtomicU64::new(0);

/// Pairs the event stream with the node trace (one Q_ENTER per node, nested like the recursion)
/// and judges every node that has a complete record: a node that ran to the end of its loop must
/// have searched every move of its list; a node that left early (cut-off, clock) a subset; a
/// node that stood pat or was mated none. Returns (nodes judged, problems as (node index, text)).
/// An inconsistent stream (hooks moved or removed by a change) is not judged.
pub fn examined_problems(trace: &[(Board, bool, Vec<crate::moves::Move>)], events: &[(u8, Option<crate::moves::Move>)]) -> (u64, Vec<(usize, String)>) {
    use crate::search::verif::{Q_ENTER, Q_EXAMINE, Q_EXIT_COMPLETE, Q_EXIT_CUTOFF, Q_EXIT_MATED, Q_EXIT_STAND_PAT, Q_EXIT_STOPPED};
    let mut problems = Vec::new();
    let mut judged = 0u64;
    let mut stack: Vec<(usize, Vec<Mv>)> = Vec::new();
    let mut next = 0usize;
    for (kind, mv) in events {
        if *kind == Q_ENTER {
            if next >= trace.len() {
                return (0, vec![]);
            }
            stack.push((next, Vec::new()));
            next += 1;
        } else if *kind == Q_EXAMINE {
            match (stack.last_mut(), mv) {
                (Some(top), Some(m)) => top.1.push(eng::mv_of(m)),
                _ => return (0, vec![]),
            }
        } else {
            let (i, mut examined) = match stack.pop() {
                Some(x) => x,
                None => return (0, vec![]),
            };
            let mut list: Vec<Mv> = trace[i].2.iter().map(eng::mv_of).collect();
            list.sort();
            list.dedup();
            examined.sort();
            let dup = {
                let mut d = examined.clone();
                d.dedup();
                d.len() != examined.len()
            };
            let outside: Vec<Mv> = examined.iter().filter(|m| !list.contains(m)).cloned().collect();
            judged += 1;
            let text = if *kind == Q_EXIT_COMPLETE {
                let skipped: Vec<Mv> = list.iter().filter(|m| !examined.contains(m)).cloned().collect();
                if !skipped.is_empty() || !outside.is_empty() || dup {
                    Some(format!("the node ran through its whole move loop but searched [{}] of its list [{}]: never searched [{}], searched outside the list [{}]{}", eng::moves_text(&examined), eng::moves_text(&list), eng::moves_text(&skipped), eng::moves_text(&outside), if dup { ", some move twice" } else { "" }))
                } else {
                    None
                }
            } else if *kind == Q_EXIT_CUTOFF || *kind == Q_EXIT_STOPPED {
                if !outside.is_empty() || dup {
                    Some(format!("the node searched [{}], not all from its list [{}]", eng::moves_text(&examined), eng::moves_text(&list)))
                } else {
                    None
                }
            } else if *kind == Q_EXIT_STAND_PAT || *kind == Q_EXIT_MATED {
                if !examined.is_empty() {
                    Some("the node reports a stand-pat / mate exit after searching moves".to_string())
                } else {
                    None
                }
            } else {
                return (0, vec![]);
            };
            if let Some(t) = text {
                problems.push((i, t));
            }
        }
    }
    (judged, problems)
}

/// Replay of "the start state was never expanded": the same traced quiescence search again.
pub fn replay_root_one(start_fen: &str, cap: u64, phase: u8) -> i32 {
    use crate::search::Searcher;
    let p = Pos::from_fen(start_fen).unwrap();
    let b = eng::board_of(&p).unwrap();
    crate::timer::verif::set_node_clock(Some(1));
    let mut s = Searcher::new();
    if phase == 1 {
        let _ = guard(|| s.find_best_move(&b, 2, Some(std::time::Duration::from_millis(2500))));
        crate::timer::verif::set_node_clock(Some(1));
    }
    if phase == 2 {
        let mg = MoveGenerator::new();
        for m in mg.generate_moves(&b) {
            let c = b.clone_with_move(&m);
            s.push_position(&c);
            s.push_position(&c);
        }
    }
    crate::search::verif::set_quiescence_trace(true);
    let r = guard(|| s.verif_quiesce(&b, Some(std::time::Duration::from_millis(cap))));
    let trace = crate::search::verif::take_quiescence_trace();
    let _ = crate::search::verif::take_quiescence_events();
    crate::search::verif::set_quiescence_trace(false);
    let in_check = p.in_check(p.stm);
    let want = if in_check { p.legal_moves() } else { p.tactical_moves() };
    let root_traced = trace.first().map(|t| eng::key_of(&t.0) == eng::key_of(&b)).unwrap_or(false);
    if r.is_ok() && !root_traced && !want.is_empty() {
        println!("REPLAY-VIOLATION C17 fen={} root-not-expanded :: the quiescence search returned without choosing a move list for its start state", p.fen4());
        return 1;
    }
    println!("REPLAY-OK C17 root of {} expanded", start_fen);
    0
}

/// Replay of "a searched child came back without any event": fresh searcher, same traced search.
pub fn replay_silent_one(start_fen: &str, node_fen4: &str, cap: u64) -> i32 {
    use crate::search::Searcher;
    let p = Pos::from_fen(start_fen).unwrap();
    let b = eng::board_of(&p).unwrap();
    crate::timer::verif::set_node_clock(Some(1));
    let mut s = Searcher::new();
    crate::search::verif::set_quiescence_trace(true);
    let r = guard(|| s.verif_quiesce(&b, Some(std::time::Duration::from_millis(cap))));
    let trace = crate::search::verif::take_quiescence_trace();
    let events = crate::search::verif::take_quiescence_events();
    crate::search::verif::set_quiescence_trace(false);
    let stopped = crate::timer::verif::first_stop().is_some() || events.iter().any(|e| e.0 == crate::search::verif::Q_EXIT_STOPPED);
    if r.is_ok() && !stopped {
        let (silent, _) = silent_children(&trace, &events);
        for (_, _, child) in silent {
            if let Ok(cp) = eng::pos_of(&child) {
                let want = if cp.in_check(cp.stm) { cp.legal_moves() } else { cp.tactical_moves() };
                let before = trace.iter().any(|t| eng::key_of(&t.0) == eng::key_of(&child));
                if cp.fen4() == node_fen4 && !want.is_empty() && !before {
                    println!("REPLAY-VIOLATION C17 start={} node={} child-not-expanded :: searched by its parent, came back without any event, has [{}] to examine", start_fen, node_fen4, eng::moves_text(&want));
                    return 1;
                }
            }
        }
    }
    println!("REPLAY-OK C17 every searched child of the quiescence search from {} shows up as a node", start_fen);
    0
}

pub fn replay_exam_one(start_fen: &str, node_fen: &str, cap: u64, phase: u8) -> i32 {
    let after_search = phase == 1;
    use crate::search::Searcher;
    let p = Pos::from_fen(start_fen).unwrap();
    let b = eng::board_of(&p).unwrap();
    crate::timer::verif::set_node_clock(Some(1));
    let mut s = Searcher::new();
    if after_search {
        // as in the run: a main search of the state on a fresh searcher, then the traced quiescence
        let _ = guard(|| s.find_best_move(&b, 2, Some(std::time::Duration::from_millis(2500))));
        crate::timer::verif::set_node_clock(Some(1));
    }
    if phase == 2 {
        let mg = MoveGenerator::new();
        for m in mg.generate_moves(&b) {
            let c = b.clone_with_move(&m);
            s.push_position(&c);
            s.push_position(&c);
        }
    }
    crate::search::verif::set_quiescence_trace(true);
    let _ = guard(|| s.verif_quiesce(&b, Some(std::time::Duration::from_millis(cap))));
    let trace = crate::search::verif::take_quiescence_trace();
    let events = crate::search::verif::take_quiescence_events();
    crate::search::verif::set_quiescence_trace(false);
    let (_, problems) = examined_problems(&trace, &events);
    for (i, text) in problems {
        if eng::fen_of(&trace[i].0) == node_fen {
            println!("REPLAY-VIOLATION C17 start={} node={} examined :: {}", start_fen, node_fen, text);
            return 1;
        }
    }
    println!("REPLAY-OK C17 examined moves from {}", start_fen);
    0
}

/// Replay of a history-dependence case: a fresh process (fresh thread-local generator) is asked
/// about the recorded positions in the recorded order through the same check.
pub fn replay_hist(which: Which, fens: &str) -> i32 {
    let rep = Report::new(which.id(), "quick", 0);
    let mg = MoveGenerator::new();
    let pc = PosCheck::new(crate::eng::tl_mg(), &rep, which);
    for f in fens.split('|') {
        match eng::board_of_fen(f) {
            Ok(b) => {
                pc.check_state(&b);
            }
            Err(e) => {
                println!("REPLAY-ERROR bad fen {:?}: {}", f, e);
                return 2;
            }
        }
    }
    let v = rep.violations.lock().unwrap();
    for x in v.iter() {
        println!("REPLAY-VIOLATION {} :: {}", x.sig, x.text.split(" -- ").next().unwrap_or(""));
    }
    if v.is_empty() {
        println!("REPLAY-OK {} history of {} positions", which.id(), fens.split('|').count());
        0
    } else {
        1
    }
}

/// Replay of one traced quiescence node: runs the real quiescence search from the FEN and
/// checks the root node's list (the first trace entry).
/// Replay of a node whose chosen list was wrong, in its context: the same start state, the same
/// preparation (phase) and the same budget; the node is looked for in the trace.
pub fn replay_trace_ctx(start_fen: &str, node_fen4: &str, cap: u64, phase: u8) -> i32 {
    use crate::search::Searcher;
    let b = eng::board_of_fen(start_fen).unwrap();
    crate::timer::verif::set_node_clock(Some(1));
    let mut s = Searcher::new();
    if phase == 1 {
        let _ = guard(|| s.find_best_move(&b, 2, Some(std::time::Duration::from_millis(2500))));
        crate::timer::verif::set_node_clock(Some(1));
    }
    if phase == 2 {
        let mg = MoveGenerator::new();
        for m in mg.generate_moves(&b) {
            let c = b.clone_with_move(&m);
            s.push_position(&c);
            s.push_position(&c);
        }
    }
    crate::search::verif::set_quiescence_trace(true);
    let _ = guard(|| s.verif_quiesce(&b, Some(std::time::Duration::from_millis(cap))));
    let trace = crate::search::verif::take_quiescence_trace();
    let _ = crate::search::verif::take_quiescence_events();
    crate::search::verif::set_quiescence_trace(false);
    for (tb, flag, list) in &trace {
        let p = match eng::pos_of(tb) {
            Ok(p) => p,
            Err(_) => continue,
        };
        if p.fen4() != node_fen4 {
            continue;
        }
        let in_check = p.in_check(p.stm);
        let mut want = if in_check { p.legal_moves() } else { p.tactical_moves() };
        want.sort();
        let mut got: Vec<Mv> = list.iter().map(eng::mv_of).collect();
        got.sort();
        let mut dedup = got.clone();
        dedup.dedup();
        if *flag != in_check || dedup != want || dedup.len() != got.len() {
            println!("REPLAY-VIOLATION C17 fen={} qnode :: in the quiescence search from {} the node examines [{}], expected [{}], in-check flag {} (rules: {})", node_fen4, start_fen, eng::moves_text(&got), eng::moves_text(&want), flag, in_check);
            return 1;
        }
    }
    println!("REPLAY-OK C17 node {} in the search from {}", node_fen4, start_fen);
    0
}

pub fn replay_trace_one(fen: &str) -> i32 {
    use crate::search::Searcher;
    let p = Pos::from_fen(fen).unwrap();
    let b = eng::board_of(&p).unwrap();
    crate::timer::verif::set_node_clock(Some(1));
    crate::search::verif::set_quiescence_trace(true);
    let mut s = Searcher::new();
    let _ = guard(|| s.verif_quiesce(&b, Some(std::time::Duration::from_millis(50))));
    let trace = crate::search::verif::take_quiescence_trace();
    crate::search::verif::set_quiescence_trace(false);
    let (_, flag, list) = match trace.first() {
        Some(x) => x.clone(),
        None => {
            println!("REPLAY-VIOLATION C17 {} no quiescence node traced", fen);
            return 1;
        }
    };
    let in_check = p.in_check(p.stm);
    let mut want = if in_check { p.legal_moves() } else { p.tactical_moves() };
    want.sort();
    let mut got: Vec<Mv> = list.iter().map(eng::mv_of).collect();
    got.sort();
    if flag != in_check || got != want {
        println!("REPLAY-VIOLATION C17 fen={} qnode :: examines [{}], expected [{}], in-check flag {} (rules: {})", fen, eng::moves_text(&got), eng::moves_text(&want), flag, in_check);
        1
    } else {
        println!("REPLAY-OK C17 trace {}", fen);
        0
    }
}
