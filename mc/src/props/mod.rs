pub mod c05;
pub mod c0607;
pub mod c10;
pub mod c11;
pub mod c12;
pub mod c14;
pub mod c15;
pub mod posprops;
