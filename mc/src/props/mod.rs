pub mod posprops;
