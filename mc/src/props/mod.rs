//! One module per property (or family). Cargo features select what is compiled: "search" is the
//! family that drives the move generator and the searcher (C01 C02 C05 C06 C07 C08 C09 C17), the
//! others are single properties with a narrow interface to the repository, "bb" the black-box
//! checks that need nothing but the engine binary.
#[cfg(feature = "search")]
pub mod c05;
#[cfg(feature = "search")]
pub mod c0607;
#[cfg(feature = "search")]
pub mod c08;
#[cfg(feature = "search")]
pub mod c08retro;
#[cfg(feature = "search")]
pub mod c09;
#[cfg(feature = "search")]
pub mod c15engine;
#[cfg(feature = "search")]
pub mod posprops;
#[cfg(feature = "c10")]
pub mod c10;
#[cfg(feature = "c11")]
pub mod c11;
#[cfg(feature = "c12")]
pub mod c12;
#[cfg(feature = "c14")]
pub mod c14;
#[cfg(feature = "c15")]
pub mod c15;
#[cfg(feature = "c04")]
pub mod c04;
#[cfg(feature = "bb")]
pub mod c03;
#[cfg(feature = "bb")]
pub mod c13;
#[cfg(feature = "bb")]
pub mod c16;
