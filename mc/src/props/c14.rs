//! C14: static evaluation is a symmetric, bounded, pure function of the position.

use crate::board::Board;
use crate::eng::{self, guard};
use crate::eval::Evaluator;
use crate::graph::{explore, Visitor};
use crate::json::J;
use crate::move_gen::MoveGenerator;
use crate::par::par_map;
use crate::props::posprops::{setup, PosCheck, Which};
use crate::refchess::{Mv, Pos};
use crate::report::Report;
use crate::roots;
use std::cell::RefCell;
use std::sync::atomic::{AtomicI64, AtomicU64, Ordering};
use std::sync::Mutex;

const BOUND: i32 = 20_000;

/// (halfmove clock, fullmove number) pairs every state is re-evaluated with
const COUNTERS: [(u8, u16); 6] = [(0, 1), (41, 41), (99, 120), (100, 200), (150, 300), (255, 5949)];

const DIRTY: [&str; 3] = [
    "rnbqkbnr/pppppppp/8/8/8/8/PPPPPPPP/RNBQKBNR w KQkq - 0 1",
    "qqqqkqqq/qq6/8/8/8/8/QQ6/QQQQKQQQ b - - 0 1",
    "4k3/8/8/8/8/8/8/4K3 w - - 0 1",
];

fn dirty_boards() -> &'static [Board; 3] {
    static CELL: std::sync::OnceLock<[Board; 3]> = std::sync::OnceLock::new();
    CELL.get_or_init(|| [eng::board_of_fen(DIRTY[0]).unwrap(), eng::board_of_fen(DIRTY[1]).unwrap(), eng::board_of_fen(DIRTY[2]).unwrap()])
}

thread_local! {
    /// One long-lived evaluator per worker thread, used for every state that thread visits.
    static LONG_LIVED: RefCell<Evaluator> = RefCell::new(Evaluator::new());
}

struct EvalCheck<'a> {
    /// model positions of the exploration's roots (to find the move path of a board whose score
    /// depends on how it was reached)
    root_positions: Vec<Pos>,
    path_searches: AtomicU64,
    nav: PosCheck<'a>,
    rep: &'a Report,
    states: AtomicU64,
    swap_checked: AtomicU64,
    mirror_checked: AtomicU64,
    max_abs: AtomicI64,
    distinct_scores: Mutex<std::collections::HashSet<i32>>,
    samples: Mutex<Vec<J>>,
}

/// Shortest move path (rules model) from one of `roots` to the position with this four-field FEN.
fn path_from_roots(roots: &[Pos], fen4: &str, max: usize) -> Option<(String, Vec<Mv>)> {
    for r in roots {
        if r.fen4() == fen4 {
            return Some((r.fen(0, 1), vec![]));
        }
    }
    for r in roots {
        // depth-first with iterative bound: the trees are small (max <= 4)
        fn dfs(p: &Pos, target: &str, left: usize, path: &mut Vec<Mv>) -> bool {
            if left == 0 {
                return false;
            }
            for m in p.legal_moves() {
                let n = p.make(m);
                path.push(m);
                if n.fen4() == target || dfs(&n, target, left - 1, path) {
                    return true;
                }
                path.pop();
            }
            false
        }
        for bound in 1..=max {
            let mut path = Vec::new();
            if dfs(r, fen4, bound, &mut path) {
                return Some((r.fen(0, 1), path));
            }
        }
    }
    None
}

/// Replay: the root set up from its FEN, the moves played by the real make_move, the score of the
/// board so reached against the score of the same position set up from its FEN.
pub fn replay_path(root: &str, moves: &str) -> i32 {
    let p0 = Pos::from_fen(root).unwrap();
    let mut b = eng::board_of(&p0).unwrap();
    let mut p = p0;
    for t in moves.split_whitespace() {
        let m = Mv::parse(t).unwrap();
        let ms = crate::eng::tl_mg().generate_moves(&b);
        match ms.iter().find(|x| x.to_algebraic() == t) {
            Some(em) => b = b.clone_with_move(em),
            None => {
                println!("REPLAY-OK C14 path: move {} is not generated (another property's business)", t);
                return 0;
            }
        }
        p = p.make(m);
    }
    let reached = eval_fresh(&b);
    let rebuilt = eng::board_of(&p).map_err(|e| e.to_string()).and_then(|x| eval_fresh(&x));
    if reached == rebuilt {
        println!("REPLAY-OK C14 path {} [{}]", root, moves);
        0
    } else {
        println!("REPLAY-VIOLATION C14 path {} [{}]: the board reached by the moves and the board set up from its FEN score differently", root, moves);
        1
    }
}

fn eval_fresh(b: &Board) -> Result<i32, String> {
    guard(|| Evaluator::new().evaluate(b))
}

impl<'a> EvalCheck<'a> {
    fn violate(&self, fen: &str, what: &str, text: String) {
        self.rep.violation(format!("C14 fen={} {}", fen, what), text, vec!["c14-one".into(), "--fen".into(), fen.to_string()], J::Null);
    }

    fn check(&self, b: &Board, p: &Pos) {
        self.check_at(b, p, 4)
    }

    fn check_at(&self, b: &Board, p: &Pos, depth: usize) {
        self.states.fetch_add(1, Ordering::Relaxed);
        let fen = p.fen4();
        crate::crumb::set(&["c14-one", "--fen", &fen]);
        let fresh = match eval_fresh(b) {
            Ok(v) => v,
            Err(e) => {
                self.violate(&fen, "panic", format!("evaluate({:?}): {}", fen, e));
                return;
            }
        };
        // the board itself must not carry anything the score depends on besides placement and
        // side to move: the same position set up from its FEN scores the same as this board,
        // which was reached by real moves from a root
        if let Ok(rebuilt) = eng::board_of(p) {
            let v = eval_fresh(&rebuilt);
            if v != Ok(fresh) {
                let n = self.path_searches.fetch_add(1, Ordering::Relaxed);
                let path = if n < 2 { path_from_roots(&self.root_positions, &fen, depth.min(4)) } else { None };
                self.rep.violation(
                    format!("C14 fen={} depends-on-the-way-the-board-was-reached", fen),
                    format!(
                        "evaluate of the board reached by real moves{} = {}, but the same position set up from its FEN {:?} scores {:?}: the score depends on more than placement and side to move",
                        match &path {
                            Some((r, m)) => format!(" [{}] from {:?}", m.iter().map(|x| x.uci()).collect::<Vec<_>>().join(" "), r),
                            None => String::new(),
                        },
                        fresh,
                        fen,
                        v
                    ),
                    match path {
                        Some((r, m)) => vec!["c14-path".into(), "--root".into(), r, "--moves".into(), m.iter().map(|x| x.uci()).collect::<Vec<_>>().join(" ")],
                        None => vec![],
                    },
                    J::Null,
                );
                // everything below compares with boards set up from FENs and would only repeat this
                return;
            }
        }
        // purity, deterministic form: an evaluator that has just evaluated a very different
        // position (start position, 18 queens, bare kings) must give the same score
        let mut impure = false;
        for (i, d) in dirty_boards().iter().enumerate() {
            let v = guard(|| {
                let mut e = Evaluator::new();
                e.evaluate(d);
                e.evaluate(b)
            });
            if v != Ok(fresh) {
                impure = true;
                self.violate(&fen, "impure", format!("evaluate({:?}) = {:?} right after evaluating {:?}, {} on a fresh evaluator", fen, v, DIRTY[i], fresh));
                break;
            }
        }
        // purity across the enumerated call order: the long-lived evaluator of this worker
        let long = LONG_LIVED.with(|e| guard(|| e.borrow_mut().evaluate(b)));
        if long != Ok(fresh) && !impure {
            self.rep.violation(
                format!("C14 fen={} impure-long-lived", fen),
                format!("evaluate({:?}) = {:?} on an evaluator that has evaluated other explored positions before, {} on a fresh one", fen, long, fresh),
                vec![],
                J::Null,
            );
        }
        // the move counters are not part of "piece placement and side to move"
        for (hm, fm) in COUNTERS {
            let mut c = *b;
            c.halfmove_clock = hm;
            c.fullmove_counter = fm;
            let v = eval_fresh(&c);
            if v != Ok(fresh) {
                self.rep.violation(
                    format!("C14 fen={} counters", fen),
                    format!("evaluate({:?}) = {} with the board's own counters but {:?} with halfmove clock {} / fullmove number {}", fen, fresh, v, hm, fm),
                    vec!["c14-one".into(), "--fen".into(), fen.to_string()],
                    J::Null,
                );
                break;
            }
        }
        // bound
        if fresh.abs() > BOUND {
            self.violate(&fen, "bound", format!("|evaluate({:?})| = {} exceeds {}", fen, fresh.abs(), BOUND));
        }
        self.max_abs.fetch_max(fresh.abs() as i64, Ordering::Relaxed);
        // side swap: exact negation (whenever the swapped position is itself valid)
        let sw = p.swap_side();
        if sw.is_valid() {
            if let Ok(sb) = eng::board_of(&sw) {
                self.swap_checked.fetch_add(1, Ordering::Relaxed);
                let v = eval_fresh(&sb);
                if v != Ok(-fresh) {
                    self.violate(&fen, "sideswap", format!("evaluate({:?}) = {} but with the other side to move it is {:?} (expected {})", fen, fresh, v, -fresh));
                }
            }
        }
        // mirror with colours exchanged: unchanged
        let mi = p.mirror();
        if let Ok(mb) = eng::board_of(&mi) {
            self.mirror_checked.fetch_add(1, Ordering::Relaxed);
            let v = eval_fresh(&mb);
            if v != Ok(fresh) {
                self.violate(&fen, "mirror", format!("evaluate({:?}) = {} but its colour-mirrored twin {:?} evaluates to {:?}", fen, fresh, mi.fen4(), v));
            }
        }
        {
            let mut d = self.distinct_scores.lock().unwrap();
            if d.len() < 100_000 {
                d.insert(fresh);
            }
        }
        let mut s = self.samples.lock().unwrap();
        if s.len() < 5 {
            s.push(J::obj().set("fen", fen).set("score", fresh));
        }
    }
}

impl<'a> Visitor for EvalCheck<'a> {
    fn visit(&self, b: &Board, d: usize) -> Vec<(Board, u64)> {
        if let Ok(p) = eng::pos_of(b) {
            self.check_at(b, &p, d);
        }
        self.nav.check_state(b)
    }
    fn stop(&self) -> bool {
        self.rep.saturated()
    }
}

const SEQ_FENS: [&str; 24] = [
    "rnbqkbnr/pppppppp/8/8/8/8/PPPPPPPP/RNBQKBNR w KQkq - 0 1",
    "rnbqkbnr/pppppppp/8/8/8/8/PPPPPPPP/RNBQKBNR b KQkq - 0 1",
    "r3k2r/p1ppqpb1/bn2pnp1/3PN3/1p2P3/2N2Q1p/PPPBBPPP/R3K2R w KQkq - 0 1",
    "8/2p5/3p4/KP5r/1R3p1k/8/4P1P1/8 w - - 0 1",
    "k7/8/8/8/8/8/1QQQQQQQ/1QQ1K3 b - - 0 1",
    "qqqqkqqq/qq6/8/8/8/8/8/4K3 w - - 0 1",
    "4k3/8/8/8/8/8/8/4K3 w - - 0 1",
    "4k3/8/8/8/8/8/8/4K3 b - - 0 1",
    "4k3/8/8/8/8/8/4P3/4K3 w - - 0 1",
    "4k3/4p3/8/8/8/8/8/4K3 w - - 0 1",
    "6k1/PPPPP3/8/8/8/8/ppppp3/6K1 w - - 0 1",
    "r1bq1rk1/ppp2ppp/2np1n2/2b1p3/2B1P3/2PP1N2/PP3PPP/RNBQ1RK1 w - - 0 7",
    "8/5pk1/6p1/R7/5P2/6P1/r4K2/8 w - - 0 40",
    "7k/5Q2/6K1/8/8/8/8/8 w - - 0 1",
    "R6k/6pp/8/8/8/8/8/7K b - - 0 1",
    "4k3/8/8/8/8/8/8/R3K2R w KQ - 0 1",
    "r3k2r/8/8/8/8/8/8/4K3 b kq - 0 1",
    "4k3/8/8/8/8/8/8/RNBQKBNR w KQ - 0 1",
    "rnbqkbnr/8/8/8/8/8/8/4K3 b kq - 0 1",
    "4k3/pppppppp/8/8/8/8/PPPPPPPP/4K3 w - - 0 1",
    "n3k3/8/8/8/8/8/8/N3K3 w - - 0 1",
    "b3k3/8/8/8/8/8/8/B3K3 b - - 0 1",
    "3qk3/8/8/8/8/8/8/3QK3 w - - 0 1",
    "4k3/8/8/3q4/8/8/8/4K3 w - - 0 1",
];

pub fn run(tier: &str, seed: u64, out: &str) {
    let rep = Report::new("C14", tier, seed);
    let thorough = tier == "thorough";
    if let Err(e) = crate::refchess::self_test(3) {
        eprintln!("MACHINERY ERROR: {}", e);
        std::process::exit(2);
    }
    let mg = MoveGenerator::new();
    let mut ec = EvalCheck {
        root_positions: Vec::new(),
        path_searches: AtomicU64::new(0),
        nav: PosCheck::new(crate::eng::tl_mg(), &rep, Which::Nav),
        rep: &rep,
        states: AtomicU64::new(0),
        swap_checked: AtomicU64::new(0),
        mirror_checked: AtomicU64::new(0),
        max_abs: AtomicI64::new(0),
        distinct_scores: Mutex::new(Default::default()),
        samples: Mutex::new(Vec::new()),
    };
    let roots = roots::all_roots().unwrap_or_else(|e| {
        eprintln!("MACHINERY ERROR: {}", e);
        std::process::exit(2)
    });
    let mut root_boards: Vec<(Board, u64)> = roots.iter().filter_map(|r| setup(&r.pos, &rep, "C14")).map(|b| (b, 0)).collect();
    // the roots with move lists as long as chess allows (nine queens, seven promoted men a side):
    // explored on their own, one ply less (their neighbourhoods are two orders of magnitude larger)
    let mut extreme_boards: Vec<(Board, u64)> = Vec::new();
    for r in roots::extreme_roots().unwrap_or_else(|e| {
        eprintln!("MACHINERY ERROR: {}", e);
        std::process::exit(2)
    }) {
        if let Some(b) = setup(&r.pos, &rep, "C14") {
            extreme_boards.push((b, 0));
        }
    }
    // extreme-material roots for the bound
    for fen in ["qqqqkqqq/qq6/8/8/8/8/QQ6/QQQQKQQQ w - - 0 1", "qqqqkqqq/qq6/8/8/8/8/8/4K3 w - - 0 1", "4k3/8/8/8/8/8/QQ6/QQQQKQQQ b - - 0 1"] {
        let p = Pos::from_fen(fen).unwrap();
        if p.is_valid() {
            if let Some(b) = setup(&p, &rep, "C14") {
                root_boards.push((b, 0));
            }
        } else {
            eprintln!("MACHINERY ERROR: extreme root {} invalid: {:?}", fen, p.validity());
            std::process::exit(2);
        }
    }
    ec.root_positions = root_boards.iter().filter_map(|(b, _)| eng::pos_of(b).ok()).collect();
    let depth = if thorough { 4 } else { 3 };
    let gs = explore(&root_boards, depth, if thorough { 60_000_000 } else { 6_000_000 }, &ec);
    if gs.capped {
        rep.cap(format!("root neighbourhood stopped after {} states", gs.states));
    }
    let ge = explore(&extreme_boards, depth - 1, if thorough { 60_000_000 } else { 6_000_000 }, &ec);
    if ge.capped {
        rep.cap(format!("extreme-root neighbourhood stopped after {} states", ge.states));
    }
    eprintln!("[C14] extreme roots: {} states to depth {} ({:.1}s)", ge.states, depth - 1, rep.elapsed());
    eprintln!("[C14] roots: {} states ({:.1}s)", gs.states, rep.elapsed());
    // complete class F1 (the per-(colour, piece, square) contributions all appear here)
    let mut class_states = 0u64;
    for class in roots::classes(tier) {
        if class.name != "F1" && !(thorough && class.name == "F4") {
            continue;
        }
        let counts: Vec<u64> = par_map(&class.units, |u| {
            let mut n = 0;
            (class.gen)(*u, &mut |p: Pos| {
                if let Ok(b) = eng::board_of(&p) {
                    ec.check(&b, &p);
                    n += 1;
                }
            });
            n
        });
        class_states += counts.iter().sum::<u64>();
    }
    eprintln!("[C14] classes: {} states ({:.1}s)", class_states, rep.elapsed());

    // every sequence of <= 3 calls over 24 positions on ONE evaluator vs fresh results
    let boards: Vec<Board> = SEQ_FENS.iter().map(|f| eng::board_of_fen(f).expect("sequence FEN")).collect();
    let fresh: Vec<i32> = boards.iter().map(|b| Evaluator::new().evaluate(b)).collect();
    let mut sequences = 0u64;
    let firsts: Vec<usize> = (0..boards.len()).collect();
    let seq_counts: Vec<u64> = par_map(&firsts, |&a| {
        let mut n = 0;
        for b in 0..boards.len() {
            for c in 0..boards.len() {
                let r = guard(|| {
                    let mut e = Evaluator::new();
                    [e.evaluate(&boards[a]), e.evaluate(&boards[b]), e.evaluate(&boards[c])]
                });
                n += 1;
                if r != Ok([fresh[a], fresh[b], fresh[c]]) {
                    rep.violation(
                        format!("C14 sequence {} {} {}", a, b, c),
                        format!("one evaluator called on [{:?}, {:?}, {:?}] returned {:?}; fresh evaluators return {:?}", SEQ_FENS[a], SEQ_FENS[b], SEQ_FENS[c], r, [fresh[a], fresh[b], fresh[c]]),
                        vec!["c14-seq".into(), "--a".into(), a.to_string(), "--b".into(), b.to_string(), "--c".into(), c.to_string()],
                        J::Null,
                    );
                }
            }
        }
        n
    });
    sequences += seq_counts.iter().sum::<u64>();

    // ---- history dependence triggered by a material class: one position per material
    // signature (per side: 0-1 queens, 0-2 rooks, 0-1 light and 0-1 dark bishops, 0-2 knights,
    // 0 or 3 pawns; both sides to move) is evaluated first, then a battery of probe positions on
    // the same evaluator (and the other way round); every score must equal the fresh one
    let sigs = signature_positions();
    let probes: Vec<Board> = SEQ_FENS.iter().step_by(2).map(|f| eng::board_of_fen(f).expect("probe FEN")).collect();
    let probe_fresh: Vec<i32> = probes.iter().map(|b| Evaluator::new().evaluate(b)).collect();
    let sig_counts: Vec<u64> = par_map(&sigs, |(p, b)| {
        if rep.saturated() {
            return 0;
        }
        let own = match eval_fresh(b) {
            Ok(v) => v,
            Err(_) => return 0,
        };
        let r = guard(|| {
            let mut e = Evaluator::new();
            let first = e.evaluate(b);
            let after: Vec<i32> = probes.iter().map(|q| e.evaluate(q)).collect();
            let again = e.evaluate(b);
            (first, after, again)
        });
        match r {
            Ok((first, after, again)) if first == own && again == own && after == probe_fresh => {}
            other => {
                rep.violation(
                    format!("C14 signature {} history", p.fen4()),
                    format!("one evaluator called on {:?} and then on the {} probe positions and on {:?} again returned {:?}; fresh evaluators return ({}, {:?}, {})", p.fen4(), probes.len(), p.fen4(), other, own, probe_fresh, own),
                    vec!["c14-sig".into(), "--fen".into(), p.fen4()],
                    J::Null,
                );
            }
        }
        2 + probes.len() as u64
    });
    let sig_evals: u64 = sig_counts.iter().sum();
    eprintln!("[C14] material signatures: {} positions x {} probes ({:.1}s)", sigs.len(), probes.len(), rep.elapsed());

    let states = ec.states.load(Ordering::Relaxed);
    let cov = J::obj()
        .set("material_signature_history", J::obj().set("signature_positions", sigs.len()).set("probe_positions", probes.len()).set("evaluations", sig_evals).set("rule", "per side 0-1 queens, 0-2 rooks, 0-1 light-squared and 0-1 dark-squared bishops, 0-2 knights, 0 or 3 pawns, both sides to move: every combination as one position; one evaluator evaluates it, then every probe, then it again; all scores equal the fresh ones"))
        .set("counter_pairs_per_state", COUNTERS.len())
        .set("states", states)
        .set("transitions", gs.transitions)
        .set("traces_validated_against_impl", states)
        .set("evaluations", states + sequences)
        .set("distinct_nontrivial", ec.distinct_scores.lock().unwrap().len())
        .set("rule", "distinct_nontrivial counts distinct evaluation scores observed (capped at 100000); every explored state is evaluated by a long-lived per-thread evaluator and by a fresh one, side-swapped (when valid) and colour-mirrored")
        .set("graph", J::obj().set("states", gs.states).set("transitions", gs.transitions).set("merges", gs.merges).set("depth", depth).set("layer_sizes", gs.layer_sizes.clone()))
        .set("class_states", class_states)
        .set("side_swap_checked", ec.swap_checked.load(Ordering::Relaxed))
        .set("mirror_checked", ec.mirror_checked.load(Ordering::Relaxed))
        .set("call_sequences_of_length_3_over_24_positions", sequences)
        .set("max_abs_score_seen", ec.max_abs.load(Ordering::Relaxed))
        .set("bound_checked", BOUND)
        .set("samples", J::Arr(ec.samples.lock().unwrap().clone()))
        .set("exhaustive", false);
    rep.finish(
        "model_checking",
        cov,
        vec![
            "positions outside the explored neighbourhoods and class F1 behave alike; the bound is checked on maximal-material roots (18 queens) in addition".into(),
            "'well inside the search window' is taken as |score| <= 20000 (window 32767)".into(),
        ],
        out,
    );
}

pub fn replay_one(fen: &str) -> i32 {
    let rep = Report::new("C14", "quick", 0);
    let mg = MoveGenerator::new();
    let ec = EvalCheck {
        root_positions: Vec::new(),
        path_searches: AtomicU64::new(0),
        nav: PosCheck::new(crate::eng::tl_mg(), &rep, Which::Nav),
        rep: &rep,
        states: AtomicU64::new(0),
        swap_checked: AtomicU64::new(0),
        mirror_checked: AtomicU64::new(0),
        max_abs: AtomicI64::new(0),
        distinct_scores: Mutex::new(Default::default()),
        samples: Mutex::new(Vec::new()),
    };
    let p = Pos::from_fen(fen).unwrap();
    if let Ok(b) = eng::board_of(&p) {
        ec.check(&b, &p);
    }
    let v = rep.violations.lock().unwrap();
    for x in v.iter() {
        println!("REPLAY-VIOLATION {} :: {}", x.sig, x.text);
    }
    if v.is_empty() {
        println!("REPLAY-OK C14 {}", fen);
        0
    } else {
        1
    }
}

/// One position per material signature (see `run`).
pub fn signature_positions() -> Vec<(Pos, Board)> {
    use crate::refchess::{Kind, Side};
    let mut out = Vec::new();
    let side_sets = |side: Side| -> Vec<Vec<(Side, Kind, u8)>> {
        // squares for white; black uses the mirror (rank flipped)
        let f = |s: u8| if side == Side::W { s } else { s ^ 56 };
        let mut v = Vec::new();
        for q in 0..=1 {
            for r in 0..=2 {
                for bl in 0..=1 {
                    for bd in 0..=1 {
                        for n in 0..=2 {
                            for pw in [0, 3] {
                                let mut men = vec![(side, Kind::K, f(4))];
                                if q == 1 {
                                    men.push((side, Kind::Q, f(3)));
                                }
                                for (i, s) in [0u8, 7].iter().enumerate() {
                                    if i < r {
                                        men.push((side, Kind::R, f(*s)));
                                    }
                                }
                                // f1 is a light square, c1 a dark one (for black: c8 light, f8 dark)
                                let (light, dark) = if side == Side::W { (5u8, 2u8) } else { (58u8, 61u8) };
                                if bl == 1 {
                                    men.push((side, Kind::B, light));
                                }
                                if bd == 1 {
                                    men.push((side, Kind::B, dark));
                                }
                                for (i, s) in [1u8, 6].iter().enumerate() {
                                    if i < n {
                                        men.push((side, Kind::N, f(*s)));
                                    }
                                }
                                for i in 0..pw {
                                    men.push((side, Kind::P, f(8 + i as u8)));
                                }
                                v.push(men);
                            }
                        }
                    }
                }
            }
        }
        v
    };
    let w = side_sets(Side::W);
    let b = side_sets(Side::B);
    for wm in &w {
        for bm in &b {
            for stm in [Side::W, Side::B] {
                let mut p = Pos::empty();
                for (s, k, sq) in wm.iter().chain(bm.iter()) {
                    p.sq[*sq as usize] = Some((*s, *k));
                }
                p.stm = stm;
                if p.is_valid() {
                    if let Ok(bd) = eng::board_of(&p) {
                        out.push((p, bd));
                    }
                }
            }
        }
    }
    out
}

pub fn replay_sig(fen: &str) -> i32 {
    let p = Pos::from_fen(fen).unwrap();
    let b = eng::board_of(&p).unwrap();
    let probes: Vec<Board> = SEQ_FENS.iter().step_by(2).map(|f| eng::board_of_fen(f).unwrap()).collect();
    let probe_fresh: Vec<i32> = probes.iter().map(|b| Evaluator::new().evaluate(b)).collect();
    let own = Evaluator::new().evaluate(&b);
    let mut e = Evaluator::new();
    let first = e.evaluate(&b);
    let after: Vec<i32> = probes.iter().map(|q| e.evaluate(q)).collect();
    let again = e.evaluate(&b);
    if first == own && again == own && after == probe_fresh {
        println!("REPLAY-OK C14 signature {}", fen);
        0
    } else {
        println!("REPLAY-VIOLATION C14 signature {}: ({}, {:?}, {}) vs fresh ({}, {:?}, {})", fen, first, after, again, own, probe_fresh, own);
        1
    }
}

pub fn replay_seq(a: usize, b: usize, c: usize) -> i32 {
    let boards: Vec<Board> = SEQ_FENS.iter().map(|f| eng::board_of_fen(f).unwrap()).collect();
    let fresh: Vec<i32> = boards.iter().map(|b| Evaluator::new().evaluate(b)).collect();
    let mut e = Evaluator::new();
    let r = [e.evaluate(&boards[a]), e.evaluate(&boards[b]), e.evaluate(&boards[c])];
    if r == [fresh[a], fresh[b], fresh[c]] {
        println!("REPLAY-OK C14 seq");
        0
    } else {
        println!("REPLAY-VIOLATION C14 sequence {} {} {}: {:?} vs fresh {:?}", a, b, c, r, [fresh[a], fresh[b], fresh[c]]);
        1
    }
}
