//! C15 at the level of the engine's own use of its table: "a result from a shallower search
//! never replaces one from a deeper search of the same position, while an equal or deeper one
//! does". The table-level check (c15.rs) drives `store` / `retrieve`; the searcher may reach the
//! table through other doors (a method of its own for the root result, a different replacement
//! rule for some scores). Here one searcher runs every sequence of searches over a small alphabet
//! (positions x depths) and the table is read after every search: for every key, the depth
//! recorded for it must never go down (a key that is gone is within the property: a bounded table
//! may evict), and an entry's depth must be a depth some search could have given it.

use crate::board::Board;
use crate::eng::{self, guard};
use crate::json::J;
use crate::par::par_map;
use crate::report::Report;
use crate::search::Searcher;
use std::collections::HashMap;
use std::sync::atomic::{AtomicU64, Ordering};

pub const POSITIONS: &[&str] = &[
    "rnbqkbnr/pppppppp/8/8/8/8/PPPPPPPP/RNBQKBNR w KQkq - 0 1",
    "8/8/4k3/8/8/4K3/4P3/8 w - - 0 1",
    "4k3/5p2/8/6B1/8/8/8/3R2K1 w - - 0 1",
    "r1bq1rk1/ppp2ppp/2np1n2/2b1p3/2B1P3/2PP1N2/PP3PPP/RNBQ1RK1 w - - 0 7",
];
pub const DEPTHS: &[u8] = &[1, 2, 3, 4];

fn snapshot(s: &Searcher) -> HashMap<u64, (u8, i32)> {
    s.verif_tt_entries().iter().map(|e| (e.hash_key, (e.depth, e.eval))).collect()
}

/// One sequence of (position index, depth) searches on one fresh searcher.
pub fn run_sequence(rep: &Report, seq: &[(usize, u8)]) -> u64 {
    let text = seq.iter().map(|(p, d)| format!("{}:{}", p, d)).collect::<Vec<_>>().join(",");
    let args = vec!["c15-engine-one".to_string(), "--seq".into(), text.clone()];
    crate::crumb::set_owned(&args);
    crate::timer::verif::set_node_clock(Some(1));
    let boards: Vec<Board> = POSITIONS.iter().map(|f| eng::board_of_fen(f).unwrap()).collect();
    let r = guard(|| {
        let mut s = Searcher::new();
        let mut prev = snapshot(&s);
        let mut max_depth_so_far = 0u8;
        let mut compared = 0u64;
        for (step, (pi, d)) in seq.iter().enumerate() {
            s.find_best_move(&boards[*pi], *d, None);
            max_depth_so_far = max_depth_so_far.max(*d);
            let now = snapshot(&s);
            // the most blatant case is reported (which entry a map yields first differs from run to run)
            let mut worst: Option<(u8, u8)> = None;
            for (k, (pd, _)) in &prev {
                if let Some((nd, _)) = now.get(k) {
                    compared += 1;
                    if nd < pd && worst.map(|(wn, wp)| (pd - nd, *pd) > (wp - wn, wp)).unwrap_or(true) {
                        worst = Some((*nd, *pd));
                    }
                }
            }
            if let Some((nd, pd)) = worst {
                return Err(format!(
                    "after search {} of the sequence (position {:?} to depth {}) an entry records depth {} where it recorded depth {} before: a result from a shallower search replaced one from a deeper search (keys are drawn afresh in every process, so the entry is named by its depths only)",
                    step + 1, POSITIONS[*pi], d, nd, pd
                ));
            }
            if let Some(nd) = now.values().map(|(nd, _)| *nd).filter(|nd| *nd > max_depth_so_far).max() {
                return Err(format!(
                    "after search {} of the sequence (position {:?} to depth {}; no search so far went deeper than {}) an entry records depth {}: data that no search stored",
                    step + 1, POSITIONS[*pi], d, max_depth_so_far, nd
                ));
            }
            prev = now;
        }
        Ok(compared)
    });
    match r {
        Err(e) => {
            rep.violation(format!("C15 engine seq={} panic", text), format!("searches [{}]: {}", text, e), args, J::Null);
            0
        }
        Ok(Err(t)) => {
            rep.violation(format!("C15 engine seq={}", text), format!("one searcher, searches (position:depth) [{}]: {}", text, t), args, J::Null);
            0
        }
        Ok(Ok(n)) => n,
    }
}

pub fn run(tier: &str, seed: u64, out: &str) {
    let rep = Report::new("C15", tier, seed);
    let thorough = tier == "thorough";
    let l = if thorough { 4 } else { 3 };
    // sequences over (position, depth): every sequence on one position, and every sequence over
    // two positions (the first two of the list) -- what one search stores another may meet
    let mut alphabet: Vec<(usize, u8)> = Vec::new();
    for pi in 0..POSITIONS.len() {
        for d in DEPTHS {
            alphabet.push((pi, *d));
        }
    }
    let mut seqs: Vec<Vec<(usize, u8)>> = Vec::new();
    fn rec(cur: &mut Vec<(usize, u8)>, alphabet: &[(usize, u8)], l: usize, out: &mut Vec<Vec<(usize, u8)>>) {
        if cur.len() >= 2 {
            out.push(cur.clone());
        }
        if cur.len() == l {
            return;
        }
        for a in alphabet {
            // at most two different positions per sequence (keeps the space at a few thousand)
            let mut ps: Vec<usize> = cur.iter().map(|x| x.0).collect();
            ps.push(a.0);
            ps.sort();
            ps.dedup();
            if ps.len() > 2 {
                continue;
            }
            cur.push(*a);
            rec(cur, alphabet, l, out);
            cur.pop();
        }
    }
    rec(&mut Vec::new(), &alphabet, l, &mut seqs);
    let compared = AtomicU64::new(0);
    par_map(&seqs, |q| {
        if rep.saturated() {
            return;
        }
        compared.fetch_add(run_sequence(&rep, q), Ordering::Relaxed);
    });
    eprintln!("[C15] engine level: {} search sequences, {} entry comparisons ({:.1}s)", seqs.len(), compared.load(Ordering::Relaxed), rep.elapsed());
    let cov = J::obj()
        .set("evaluations", seqs.len())
        .set("distinct_nontrivial", seqs.len())
        .set("states", seqs.len())
        .set("transitions", compared.load(Ordering::Relaxed))
        .set("traces_validated_against_impl", seqs.len())
        .set("positions", POSITIONS.to_vec())
        .set("depths", DEPTHS.iter().map(|d| *d as u64).collect::<Vec<_>>())
        .set("max_searches_per_sequence", l)
        .set("entry_comparisons", compared.load(Ordering::Relaxed))
        .set("rule", "every sequence of 2..L searches (position, depth) over at most two of the positions on one fresh searcher; the whole table is read after every search: for every key the recorded depth never goes down, and no entry records a depth that no search so far could have given it")
        .set("exhaustive", true)
        .set("samples", vec![seqs[seqs.len() / 2].iter().map(|(p, d)| format!("{}:{}", p, d)).collect::<Vec<_>>().join(",")]);
    rep.finish("model_checking", cov, vec![], out);
}

pub fn replay(seq: &str) -> i32 {
    let rep = Report::new("C15", "quick", 0);
    let q: Vec<(usize, u8)> = seq.split(',').filter_map(|t| t.split_once(':')).map(|(p, d)| (p.parse().unwrap(), d.parse().unwrap())).collect();
    run_sequence(&rep, &q);
    let v = rep.violations.lock().unwrap();
    for x in v.iter() {
        println!("REPLAY-VIOLATION {} :: {}", x.sig, x.text);
    }
    if v.is_empty() {
        println!("REPLAY-OK C15 engine level [{}]", seq);
        0
    } else {
        1
    }
}
