//! C13: same commands give the same answers; ucinewgame forgets everything.
//!
//! Black-box on the real (hooks-on) binary. Every history of <= L units over
//! {ucinewgame, bare `go depth 2`, (position_i ; go depth d)} is run under K seeded Zobrist key
//! sets and once unseeded (keys from thread_rng, as users run it). An `isready` after every
//! unit delimits that unit's output.
//!  (a) the normalised output (time / nps removed) must be identical in all K+1 runs;
//!  (b) for every history alpha . ucinewgame . beta, the output of the beta part must equal the
//!      output of beta alone on a fresh process (beta is itself an enumerated history: a join).

use crate::blackbox::{self, normalise, Opts};
use crate::json::J;
use crate::par::par_map;
use crate::report::Report;
use std::collections::HashMap;
use std::sync::atomic::{AtomicU64, Ordering};
use std::time::Duration;

pub const POSITIONS: &[&str] = &[
    "position startpos",
    // a move list with repetitions: the position after 1.e4 e5 occurs three times, so every search
    // from here meets third occurrences (repetition draws) at ply 1 and deeper
    "position startpos moves e2e4 e7e5 g1f3 g8f6 f3g1 f6g8 g1f3 g8f6 f3g1 f6g8",
    "position fen 8/5pk1/6p1/R7/5P2/6P1/r4K2/8 w - - 0 40",
    "position fen 8/8/8/4k3/8/4K3/4P3/8 w - - 0 1",
];
/// A game in which the history decides the answer: perpetual check, the only legal reply brings a
/// position about for the third time (score 0; 149 if the history is lost on the way to the search)
pub const PERPETUAL: &str = "position fen 6k1/RR6/8/8/7q/8/6P1/6K1 b - - 0 1 moves h4e1 g1h2 e1h4 h2g1 h4e1 g1h2 e1h4";
pub const PERPETUAL_DEPTHS: &[u8] = &[1, 3];
pub const DEPTHS: &[u8] = &[1, 2, 3, 4];
pub const HORIZON_S: u64 = 300;

/// Searches that store 10^5..10^6 table entries (position, depth in the quick tier; thorough = +1).
pub const DEEP: &[(&str, u8)] = &[
    // several seconds per search, more than a second between two of its info lines: output that
    // follows the wall clock (a progress line every second) shows only in a search that long
    ("position startpos", 8),
    ("position fen r1bq1rk1/ppp2ppp/2np1n2/2b1p3/2B1P3/2PP1N2/PP3PPP/RNBQ1RK1 w - - 0 7", 5),
    ("position fen 8/5pk1/6p1/R7/5P2/6P1/r4K2/8 w - - 0 40", 9),
    ("position fen r3k2r/p1ppqpb1/bn2pnp1/3PN3/1p2P3/2N2Q1p/PPPBBPPP/R3K2R w KQkq - 0 1", 4),
];
/// The same games two plies later (searched one ply shallower, in the same process, after the deep
/// search): the second search runs on a table that already holds the 10^5..10^6 entries of the
/// first, so anything done to a full table (trimming, ageing, eviction, resizing) shows here. A
/// second search of the *same* position would not do: it is answered from the root entry.
pub const DEEP_NEXT: &[&str] = &[
    "position startpos moves e2e4 e7e5",
    "position fen r1bq1rk1/ppp2ppp/2np1n2/2b1p3/2B1P3/2PP1N2/PP3PPP/RNBQ1RK1 w - - 0 7 moves c1g5 h7h6",
    "position fen 8/5pk1/6p1/R7/5P2/6P1/r4K2/8 w - - 0 40 moves f2f3 a2a3",
    "position fen r3k2r/p1ppqpb1/bn2pnp1/3PN3/1p2P3/2N2Q1p/PPPBBPPP/R3K2R w KQkq - 0 1 moves e1g1 e8g8",
];

/// Unit 0 is a bare `ucinewgame`: nothing, not even an `isready`, stands between it and the
/// `position` that follows (an engine that postpones the reset to its next `isready` or `go` must
/// not lose what the `position` command told it). The last unit is `ucinewgame ; isready`, the way
/// most GUIs send it. Every unit with a `go` ends with an `isready` that frames its output.
/// Games: one process plays through a game, searching every second position at a fixed depth with
/// no ucinewgame in between, so each search starts on the table all earlier ones left (quick depth,
/// start, move list searched after 0, 2, 4, ... plies; thorough = depth + 1).
pub const GAMES: &[(u8, &str, &[&str])] = &[
    (6, "position startpos", &["e2e4", "e7e5", "g1f3", "b8c6", "f1c4", "f8c5", "c2c3", "g8f6"]),
    (4, "position fen r1bq1rk1/ppp2ppp/2np1n2/2b1p3/2B1P3/2PP1N2/PP3PPP/RNBQ1RK1 w - - 0 7", &["c1g5", "h7h6", "g5h4", "g7g5", "h4g3", "c8g4"]),
];

/// Units and histories of the deep part: for each deep search X and its follow-up Y (the same game
/// two plies later, one ply shallower): [X], [X, X], [X, ucinewgame, X], [X, Y].
pub fn deep_setup(thorough: bool) -> (Vec<Vec<String>>, Vec<Vec<usize>>, Vec<Vec<String>>) {
    let mut dus = units();
    let base = dus.len();
    let mut deep_units: Vec<Vec<String>> = Vec::new();
    for (p, d) in DEEP {
        deep_units.push(vec![p.to_string(), format!("go depth {}", if thorough { d + 1 } else { *d }), "isready".to_string()]);
    }
    for (i, p) in DEEP_NEXT.iter().enumerate() {
        let d = DEEP[i].1;
        deep_units.push(vec![p.to_string(), format!("go depth {}", if thorough { d } else { d - 1 }), "isready".to_string()]);
    }
    dus.extend(deep_units.iter().cloned());
    let n = DEEP.len();
    let mut dhs: Vec<Vec<usize>> = Vec::new();
    for i in 0..n {
        dhs.push(vec![base + i]);
        dhs.push(vec![base + i, base + i]);
        dhs.push(vec![base + i, 0, base + i]);
        dhs.push(vec![base + i, base + n + i]);
    }
    for (d, start, moves) in GAMES {
        let mut h = Vec::new();
        for k in (0..=moves.len()).step_by(2) {
            let pos = if k == 0 { start.to_string() } else { format!("{} moves {}", start, moves[..k].join(" ")) };
            deep_units.push(vec![pos, format!("go depth {}", if thorough { d + 1 } else { *d }), "isready".to_string()]);
            h.push(base + deep_units.len() - 1);
        }
        dhs.push(h);
    }
    dus.truncate(base);
    dus.extend(deep_units.iter().cloned());
    (dus, dhs, deep_units)
}

pub fn units() -> Vec<Vec<String>> {
    let mut u = vec![vec!["ucinewgame".to_string()], vec!["go depth 2".to_string(), "isready".to_string()]];
    for p in POSITIONS {
        for d in DEPTHS {
            u.push(vec![p.to_string(), format!("go depth {}", d), "isready".to_string()]);
        }
    }
    for d in PERPETUAL_DEPTHS {
        u.push(vec![PERPETUAL.to_string(), format!("go depth {}", d), "isready".to_string()]);
    }
    u.push(vec!["ucinewgame".to_string(), "isready".to_string()]);
    // searches limited by the clock earlier in the session: what they leave behind (a remembered
    // clock, a budget) must not reach a later depth-limited search. Histories that contain one run
    // under the node clock (1 node = 1 ms), which makes the timed searches deterministic too.
    u.push(vec!["position startpos".to_string(), "go movetime 20".to_string(), "isready".to_string()]);
    // the standard `searchmoves` token (an engine that does not know it searches every move, one
    // that does restricts the root to the listed moves: either way the answer is a function of
    // the commands); eight moves, so that an order taken from anything per-process shows
    u.push(vec!["position startpos".to_string(), "go depth 3 searchmoves e2e4 d2d4 g1f3 b1c3 c2c4 e2e3 g2g3 b2b3".to_string(), "isready".to_string()]);
    // a clock on which no time is left (budget 0 ms): the search stops before its first iteration
    // whatever the real clock says, so this unit is deterministic WITHOUT the node clock and the
    // histories that contain no other timed unit run on the engine's real timing path (what the
    // node clock replaces is invisible to it)
    u.push(vec!["position startpos moves e2e4".to_string(), "go wtime 1 btime 1 winc 0 binc 0".to_string(), "isready".to_string()]);
    u
}

fn is_zero_budget(c: &str) -> bool {
    c == "go wtime 1 btime 1 winc 0 binc 0" || c == "go movetime 0"
}

fn is_timed(u: &[String]) -> bool {
    u.iter().any(|c| c.starts_with("go ") && !c.starts_with("go depth") && !is_zero_budget(c))
}

fn is_newgame(u: &[String]) -> bool {
    u[0] == "ucinewgame"
}

fn framed(u: &[String]) -> bool {
    u.last().map(|c| c == "isready").unwrap_or(false)
}

fn wire(hist: &[usize], units: &[Vec<String>]) -> Vec<u8> {
    let mut s = String::new();
    for u in hist {
        for c in &units[*u] {
            s.push_str(c);
            s.push('\n');
        }
    }
    s.into_bytes()
}

pub fn text(hist: &[usize], units: &[Vec<String>]) -> String {
    hist.iter().map(|u| units[*u].join(" ; ")).collect::<Vec<_>>().join(" | ")
}

/// Output per unit (split at readyok), normalised; Err on crash / hang / malformed framing.
fn run_once(exe: &str, hist: &[usize], units: &[Vec<String>], zseed: Option<u64>) -> Result<Vec<Vec<String>>, String> {
    let timed = hist.iter().any(|u| is_timed(&units[*u]));
    let o = Opts { exe, node_clock: if timed { Some(1) } else { None }, zseed, horizon: Duration::from_secs(HORIZON_S) };
    let r = blackbox::run(&o, &wire(hist, units)).unwrap_or_else(|e| {
        eprintln!("MACHINERY ERROR: {}", e);
        std::process::exit(2)
    });
    if r.timed_out {
        return Err(format!("no exit within {} s", HORIZON_S));
    }
    if r.exit_code != Some(0) {
        return Err(format!("exit status {:?} signal {:?}", r.exit_code, r.signal));
    }
    let mut segs: Vec<Vec<String>> = vec![vec![]];
    for l in normalise(&r.stdout) {
        if l == "readyok" {
            segs.push(vec![]);
        } else {
            segs.last_mut().unwrap().push(l);
        }
    }
    let tail = segs.pop().unwrap();
    let n_framed = hist.iter().filter(|u| framed(&units[**u])).count();
    if !tail.is_empty() || segs.len() != n_framed {
        return Err(format!("{} readyok-delimited blocks for {} framed units (tail {:?})", segs.len(), n_framed, tail));
    }
    // one output block per unit; an unframed unit (bare ucinewgame) prints nothing of its own: if it
    // did, that text would open the next unit's block and show as a difference there
    let mut it = segs.into_iter();
    Ok(hist.iter().map(|u| if framed(&units[*u]) { it.next().unwrap() } else { vec![] }).collect())
}

fn all_histories(n_units: usize, l: usize) -> Vec<Vec<usize>> {
    let mut out: Vec<Vec<usize>> = Vec::new();
    let mut layer: Vec<Vec<usize>> = vec![vec![]];
    for _ in 0..l {
        let mut next = Vec::new();
        for s in &layer {
            for a in 0..n_units {
                let mut t = s.clone();
                t.push(a);
                next.push(t);
            }
        }
        out.extend(next.iter().cloned());
        layer = next;
    }
    out
}

fn seeds(seed: u64, k: usize) -> Vec<Option<u64>> {
    let mut v: Vec<Option<u64>> = (0..k as u64).map(|i| Some(seed.wrapping_mul(1000003).wrapping_add(0x5EED + 7919 * i))).collect();
    v.push(None);
    v
}

pub fn run(tier: &str, seed: u64, out: &str, exe: &str) {
    let mut rep = Report::new("C13", tier, seed);
    // every violation is replayed twice on the real binary (up to the horizon each): a handful is evidence enough
    rep.max_violations = 6;
    let thorough = tier == "thorough";
    let us = units();
    let l = if thorough { 4 } else { 3 };
    let k = if thorough { 4 } else { 2 };
    let hs = all_histories(us.len(), l);
    let sd = seeds(seed, k);
    let runs = AtomicU64::new(0);
    let distinct_outputs = AtomicU64::new(0);

    // (a) every history under every key set
    let results: Vec<Option<Vec<Vec<String>>>> = par_map(&hs, |h| {
        if rep.saturated() {
            return None;
        }
        let mut first: Option<Vec<Vec<String>>> = None;
        for (i, z) in sd.iter().enumerate() {
            runs.fetch_add(1, Ordering::Relaxed);
            match run_once(exe, h, &us, *z) {
                Err(e) => {
                    rep.violation(
                        format!("C13 history={} crash", text(h, &us)),
                        format!("history [{}] key set {:?}: {}", text(h, &us), z, e),
                        vec!["c13-one".to_string(), "--history".into(), h.iter().map(|x| x.to_string()).collect::<Vec<_>>().join(","), "--k".into(), k.to_string()],
                        J::Null,
                    );
                    return None;
                }
                Ok(segs) => match &first {
                    None => first = Some(segs),
                    Some(f) => {
                        if *f != segs {
                            let (ui, (a, b)) = f.iter().zip(segs.iter()).enumerate().find(|(_, (a, b))| a != b).unwrap();
                            // a difference between two SEEDED key sets reproduces exactly and gets a
                            // replay; a difference that only the unseeded run shows is just as much a
                            // violation (the output depends on per-process randomness) but cannot be
                            // replayed bit for bit, so it is reported without replay arguments
                            let replayable = z.is_some();
                            rep.violation(
                                format!("C13 history={} key-set-dependence", text(h, &us)),
                                format!(
                                    "history [{}]: output of unit {} differs between key set {:?} and {}: {:?} vs {:?}",
                                    text(h, &us),
                                    ui + 1,
                                    sd[0],
                                    match z {
                                        Some(x) => format!("key set Some({})", x),
                                        None => "an unseeded run (keys from thread_rng, as users run the engine)".to_string(),
                                    },
                                    a,
                                    b
                                ),
                                if replayable { vec!["c13-one".to_string(), "--history".into(), h.iter().map(|x| x.to_string()).collect::<Vec<_>>().join(","), "--k".into(), k.to_string()] } else { vec![] },
                                J::obj().set("run_index", i),
                            );
                            return None;
                        }
                    }
                },
            }
        }
        first
    });
    eprintln!("[C13] {} histories (<= {} units over {} units) x {} key sets ({:.1}s)", hs.len(), l, us.len(), sd.len(), rep.elapsed());

    // (b) the join: output after ucinewgame == output of the suffix alone
    let mut by_hist: HashMap<&Vec<usize>, &Vec<Vec<String>>> = HashMap::new();
    for (h, r) in hs.iter().zip(results.iter()) {
        if let Some(r) = r {
            by_hist.insert(h, r);
        }
    }
    let mut joins = 0u64;
    let mut outs = std::collections::HashSet::new();
    for (h, r) in hs.iter().zip(results.iter()) {
        let r = match r {
            Some(r) => r,
            None => continue,
        };
        outs.insert(r.clone());
        for (j, u) in h.iter().enumerate() {
            if !is_newgame(&us[*u]) || j + 1 >= h.len() {
                continue;
            }
            let beta: Vec<usize> = h[j + 1..].to_vec();
            if let Some(alone) = by_hist.get(&beta) {
                joins += 1;
                if r[j + 1..] != alone[..] {
                    let (ui, (a, b)) = r[j + 1..].iter().zip(alone.iter()).enumerate().find(|(_, (a, b))| a != b).unwrap();
                    rep.violation(
                        format!("C13 history={} state-survives-ucinewgame", text(h, &us)),
                        format!(
                            "history [{}]: after the ucinewgame (unit {}), unit {} prints {:?} but the same commands on a fresh process print {:?}",
                            text(h, &us),
                            j + 1,
                            j + 2 + ui,
                            a,
                            b
                        ),
                        vec!["c13-one".to_string(), "--history".into(), h.iter().map(|x| x.to_string()).collect::<Vec<_>>().join(","), "--k".into(), k.to_string()],
                        J::Null,
                    );
                }
            }
        }
    }
    distinct_outputs.store(outs.len() as u64, Ordering::Relaxed);
    eprintln!("[C13] {} ucinewgame joins checked, {} distinct outputs ({:.1}s)", joins, outs.len(), rep.elapsed());


    // ---- (c) deep searches: a few searches large enough to fill the table with 10^5..10^6
    // entries (where a bounded or truncated-index table starts to collide), each under more key sets
    let (dus, dhs, deep_units) = deep_setup(thorough);
    let deep_seeds = seeds(seed ^ 0xDEE9, if thorough { 8 } else { 5 });
    let mut deep_runs = 0u64;
    if !rep.saturated() {
        let jobs: Vec<(usize, usize)> = (0..dhs.len()).flat_map(|h| (0..deep_seeds.len()).map(move |z| (h, z))).collect();
        let outs: Vec<Result<Vec<Vec<String>>, String>> = par_map(&jobs, |&(h, z)| run_once(exe, &dhs[h], &dus, deep_seeds[z]));
        deep_runs = jobs.len() as u64;
        for (hi, h) in dhs.iter().enumerate() {
            let mine: Vec<(&Option<u64>, &Result<Vec<Vec<String>>, String>)> = jobs.iter().zip(outs.iter()).filter(|((jh, _), _)| *jh == hi).map(|((_, z), o)| (&deep_seeds[*z], o)).collect();
            let first = match mine[0].1 {
                Ok(f) => f,
                Err(e) => {
                    rep.violation(format!("C13 history={} crash", text(h, &dus)), format!("history [{}]: {}", text(h, &dus), e), vec![], J::Null);
                    continue;
                }
            };
            for (z, o) in &mine[1..] {
                match o {
                    Err(e) => rep.violation(format!("C13 history={} crash", text(h, &dus)), format!("history [{}] key set {:?}: {}", text(h, &dus), z, e), vec![], J::Null),
                    Ok(segs) if segs != first => {
                        let (ui, (a, b)) = first.iter().zip(segs.iter()).enumerate().find(|(_, (a, b))| a != b).unwrap();
                        let diff = a.iter().zip(b.iter()).find(|(x, y)| x != y).map(|(x, y)| format!("{:?} vs {:?}", x, y)).unwrap_or_else(|| format!("{} vs {} lines", a.len(), b.len()));
                        rep.violation(
                            format!("C13 history={} key-set-dependence", text(h, &dus)),
                            format!("history [{}]: output of unit {} differs between key set {:?} and key set {:?}: {}", text(h, &dus), ui + 1, deep_seeds[0], z, diff),
                            if z.is_some() { vec!["c13-deep".to_string(), "--index".into(), hi.to_string(), "--tier".into(), tier.to_string()] } else { vec![] },
                            J::Null,
                        );
                        break;
                    }
                    _ => {}
                }
            }
            // the ucinewgame join on the deep histories: [X, ucinewgame, X] must end like [X]
            if h.len() == 3 {
                let single = jobs.iter().zip(outs.iter()).find(|((jh, z), _)| dhs[*jh] == vec![h[0]] && *z == 0).map(|(_, o)| o);
                if let Some(Ok(alone)) = single {
                    if first[2..] != alone[..] {
                        rep.violation(
                            format!("C13 history={} state-survives-ucinewgame", text(h, &dus)),
                            format!("history [{}]: the search after ucinewgame prints {:?}.. but the same search on a fresh process prints {:?}..", text(h, &dus), first[2].iter().rev().take(2).collect::<Vec<_>>(), alone[0].iter().rev().take(2).collect::<Vec<_>>()),
                            vec!["c13-deep".to_string(), "--index".into(), hi.to_string(), "--tier".into(), tier.to_string()],
                            J::Null,
                        );
                    }
                }
            }
        }
        eprintln!("[C13] deep searches: {} histories x {} key sets ({:.1}s)", dhs.len(), deep_seeds.len(), rep.elapsed());
    }
    let n = runs.load(Ordering::Relaxed) + deep_runs;
    let sample_h = &hs[hs.len() - us.len() - 3];
    let cov = J::obj()
        .set("states", hs.len())
        .set("transitions", n)
        .set("traces_validated_against_impl", n)
        .set("evaluations", n)
        .set("distinct_nontrivial", outs.len())
        .set("rule", "a case = one command history run on a fresh process per key set; non-trivial/distinct = histories whose complete normalised output differs from every other history's (measured as the number of distinct outputs)")
        .set("histories", hs.len())
        .set("units", us.iter().map(|u| u.join(" ; ")).collect::<Vec<_>>())
        .set("max_units_per_history", l)
        .set("key_sets_per_history", sd.len())
        .set("key_set_seeds", sd.iter().map(|s| s.map(|x| x.to_string()).unwrap_or("unseeded (thread_rng)".into())).collect::<Vec<_>>())
        .set("process_runs", n)
        .set("ucinewgame_suffix_joins", joins)
        .set("deep_searches", J::obj().set("units", deep_units.iter().map(|u| u.join(" ; ")).collect::<Vec<_>>()).set("histories", "[X], [X, X], [X, ucinewgame, X], [X, Y] for each deep search X and its follow-up Y (same game two plies later, one ply shallower, searched on the table X left); plus two games played through in one process (every second position searched at a fixed depth, no ucinewgame in between)").set("key_sets_per_history", deep_seeds.len()).set("process_runs", deep_runs))
        .set("samples", vec![J::Str(text(sample_h, &us)), J::Str(text(&hs[hs.len() / 2], &us))])
        .set("exhaustive", true)
        .set("bound", "every history up to the listed number of units; key sets are instantiated, not enumerated");
    rep.finish(
        "model_checking",
        cov,
        vec![
            "Zobrist key sets (and the hash map's per-process RandomState) are instantiated by K seeds + one unseeded run, not enumerated".into(),
            "time and nps fields of info lines are removed before comparing".into(),
        ],
        out,
    );
}

pub fn replay(history: &str, k: usize, exe: &str, seed: u64) -> i32 {
    let us = units();
    let h: Vec<usize> = history.split(',').filter(|s| !s.is_empty()).map(|s| s.parse().unwrap()).collect();
    let sd = seeds(seed, k);
    let mut bad = false;
    let mut first: Option<Vec<Vec<String>>> = None;
    // seeded key sets only: a replay must reproduce exactly
    for z in sd.iter().filter(|z| z.is_some()) {
        match run_once(exe, &h, &us, *z) {
            Err(e) => {
                println!("REPLAY-VIOLATION C13 [{}] key set {:?}: {}", text(&h, &us), z, e);
                return 1;
            }
            Ok(s) => match &first {
                None => first = Some(s),
                Some(f) => {
                    if *f != s {
                        println!("REPLAY-VIOLATION C13 [{}] output depends on the key set", text(&h, &us));
                        bad = true;
                    }
                }
            },
        }
    }
    // randomness that is not the key set (a hash map's per-process state) need not show between
    // two particular runs: a second round over the same key sets (on a correct engine every run
    // of a history prints the same, so more runs can only find what is there)
    if !bad {
        for z in sd.iter().filter(|z| z.is_some()) {
            if let (Ok(s), Some(f)) = (run_once(exe, &h, &us, *z), &first) {
                if *f != s && !bad {
                    println!("REPLAY-VIOLATION C13 [{}] output depends on the key set", text(&h, &us));
                    bad = true;
                }
            }
        }
    }
    let f = first.unwrap();
    for (j, u) in h.iter().enumerate() {
        if is_newgame(&us[*u]) && j + 1 < h.len() {
            let beta = h[j + 1..].to_vec();
            if let Ok(alone) = run_once(exe, &beta, &us, sd[0]) {
                if f[j + 1..] != alone[..] {
                    println!("REPLAY-VIOLATION C13 [{}] output after ucinewgame (unit {}) differs from a fresh process", text(&h, &us), j + 1);
                    bad = true;
                }
            }
        }
    }
    if bad {
        1
    } else {
        println!("REPLAY-OK C13 [{}]", text(&h, &us));
        0
    }
}

/// Replay of one deep history (index into the list built by `run`): all seeded key sets must agree
/// and, for [X, ucinewgame, X], the last unit must print what [X] prints on a fresh process.
pub fn replay_deep(index: usize, tier: &str, exe: &str, seed: u64) -> i32 {
    let thorough = tier == "thorough";
    let (dus, dhs, _) = deep_setup(thorough);
    let h: Vec<usize> = dhs[index].clone();
    let sd = seeds(seed ^ 0xDEE9, if thorough { 8 } else { 5 });
    let mut first: Option<Vec<Vec<String>>> = None;
    let mut bad = false;
    for z in sd.iter().filter(|z| z.is_some()) {
        match run_once(exe, &h, &dus, *z) {
            Err(e) => {
                println!("REPLAY-VIOLATION C13 [{}]: {}", text(&h, &dus), e);
                return 1;
            }
            Ok(s) => match &first {
                None => first = Some(s),
                Some(f) => {
                    if *f != s && !bad {
                        println!("REPLAY-VIOLATION C13 [{}] output depends on the key set", text(&h, &dus));
                        bad = true;
                    }
                }
            },
        }
    }
    if h.len() == 3 {
        if let (Some(f), Ok(alone)) = (&first, run_once(exe, &[h[0]], &dus, sd[0])) {
            if f[2..] != alone[..] {
                println!("REPLAY-VIOLATION C13 [{}] output after ucinewgame differs from a fresh process", text(&h, &dus));
                bad = true;
            }
        }
    }
    if bad {
        1
    } else {
        println!("REPLAY-OK C13 [{}]", text(&h, &dus));
        0
    }
}
