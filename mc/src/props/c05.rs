//! C05: pruning, move ordering and caching never change the search value.

use crate::board::Board;
use crate::eng::{self, guard};
use crate::graph::{explore, Visitor};
use crate::json::J;
use crate::move_gen::MoveGenerator;
use crate::par::par_map;
use crate::props::posprops::{PosCheck, Which};
use crate::refchess::Pos;
use crate::report::Report;
use crate::search::Searcher;
use crate::searchref::{compare, Class, RefCache};
use std::sync::atomic::{AtomicU64, Ordering};
use std::sync::Mutex;

/// (name, fen, layers of its neighbourhood used as search roots: quick, thorough)
pub const SEARCH_ROOTS: &[(&str, &str, usize, usize)] = &[
    ("start position", "rnbqkbnr/pppppppp/8/8/8/8/PPPPPPPP/RNBQKBNR w KQkq - 0 1", 2, 2),
    ("italian middlegame", "r1bq1rk1/ppp2ppp/2np1n2/2b1p3/2B1P3/2PP1N2/PP3PPP/RNBQ1RK1 w - - 0 7", 0, 1),
    ("open sicilian", "r1bqkb1r/pp2pppp/2np1n2/8/3NP3/2N5/PPP2PPP/R1BQKB1R w KQkq - 2 6", 0, 1),
    ("queen's gambit structure", "rnbq1rk1/ppp1bppp/4pn2/3p4/2PP4/2N2N2/PP2PPPP/R1BQKB1R w KQ - 4 6", 0, 1),
    ("kiwipete", "r3k2r/p1ppqpb1/bn2pnp1/3PN3/1p2P3/2N2Q1p/PPPBBPPP/R3K2R w KQkq - 0 1", usize::MAX, 0),
    ("K+P v k", "8/8/8/4k3/8/4K3/4P3/8 w - - 0 1", 2, 3),
    ("K+R v k", "8/8/8/4k3/8/8/8/R3K3 w - - 0 1", 2, 3),
    ("K+P v k+p", "8/5p2/8/4k3/8/4K3/4P3/8 b - - 0 1", 2, 3),
    ("rook endgame", "8/5pk1/6p1/R7/5P2/6P1/r4K2/8 w - - 0 40", 2, 2),
    ("perft position 3 (rook + pawns, en passant)", "8/2p5/3p4/KP5r/1R3p1k/8/4P1P1/8 w - - 0 1", 1, 2),
    ("minor-piece ending with promotion threats", "8/P4k2/8/8/3n4/8/5K1p/2B5 w - - 0 1", 2, 2),
    ("queen ending with mate threats", "6k1/5ppp/8/8/8/8/1q3PPP/3Q2K1 w - - 0 1", 1, 2),
    ("castling both sides available", "r3k2r/pppq1ppp/2n1bn2/3pp3/3PP3/2N1BN2/PPPQ1PPP/R3K2R w KQkq - 0 8", usize::MAX, 0),
    ("single legal reply (back-rank check)", "7k/8/8/8/8/8/6PP/r5K1 w - - 0 1", 2, 3),
    ("single legal reply (queen check, king must step aside)", "r3k3/p1R2Qp1/2pq4/4p3/2P4P/3BP3/P4P1P/5bK1 b q - 0 1", 0, 1),
    ("K+N v k+r (forks and skewers at the horizon)", "8/5k2/2r5/8/4N3/8/4K3/8 w - - 0 1", 2, 2),
    ("K+Q+N v k+q", "8/4k3/8/2q5/8/5N2/3QK3/8 w - - 0 1", 1, 2),
    ("rook ending with pawns on both wings", "8/pp3k2/8/2r5/8/P7/1P3K2/3R4 w - - 0 1", 2, 2),
    ("K+R v k+r", "4k3/8/4r3/8/8/4R3/8/4K3 w - - 0 1", 2, 2),
    ("knight ending, two pawns each", "4k1n1/1p4p1/8/8/8/8/1P4P1/1N2K3 w - - 0 1", 2, 2),
    ("knight ending with fixed pawns", "8/3k1p2/3n4/1p6/1P3P2/3N4/5K2/8 w - - 0 1", 2, 2),
    // pawn races: the value changes by a queen between one iteration and the next
    ("K v k+p, the pawn cannot be caught", "8/8/8/k7/7P/8/8/K7 b - - 0 1", 2, 3),
    ("K+P v k+p, race on opposite wings", "8/p7/8/8/8/8/7P/k6K w - - 0 1", 2, 3),
    ("K+P v k, stalemate tricks near promotion (under-promotion wins)", "8/1P6/8/8/8/8/5K2/7k w - - 0 1", 2, 3),
];

/// Small positions get single fixed-depth searches to depth 4 in the quick tier as well.
fn is_small(name: &str, fen: &str) -> bool {
    name.starts_with("K+") || fen.split(' ').next().unwrap().chars().filter(|c| c.is_ascii_alphabetic()).count() <= 8
}

struct Collect<'a> {
    nav: PosCheck<'a>,
    acc: Mutex<Vec<Board>>,
}

impl<'a> Visitor for Collect<'a> {
    fn visit(&self, b: &Board, _d: usize) -> Vec<(Board, u64)> {
        self.acc.lock().unwrap().push(*b);
        self.nav.check_state(b)
    }
}

/// All states within `layers` plies of the root (root included), deduplicated.
pub fn neighbourhood(mg: &MoveGenerator, rep: &Report, fen: &str, layers: usize) -> Vec<Board> {
    let p = Pos::from_fen(fen).unwrap_or_else(|e| {
        eprintln!("MACHINERY ERROR: search root {:?}: {}", fen, e);
        std::process::exit(2)
    });
    if let Err(e) = p.validity() {
        eprintln!("MACHINERY ERROR: search root {:?} invalid: {}", fen, e);
        std::process::exit(2);
    }
    let b = eng::board_of(&p).unwrap();
    let c = Collect { nav: PosCheck::new(mg, rep, Which::Nav), acc: Mutex::new(Vec::new()) };
    explore(&[(b, 0)], layers, 10_000_000, &c);
    c.acc.into_inner().unwrap()
}

pub struct Outcome {
    pub searched: u64,
    pub skipped_excluded: u64,
    pub skipped_deeper_reuse: u64,
    pub won: u64,
    pub lost: u64,
    pub exact: u64,
}

/// One fresh-engine search of (b, k) compared with the reference. `fixed` = single fixed-depth
/// search (verif_search_fixed) instead of iterative deepening through find_best_move.
pub fn check_one(cache: &RefCache, mg: &MoveGenerator, rep: &Report, b: &Board, k: u8, fixed: bool) -> (bool, Option<Class>, u64) {
    let fen = eng::fen_of(b);
    let args = vec!["c05-one".to_string(), "--fen".into(), fen.clone(), "--depth".into(), k.to_string(), "--mode".into(), if fixed { "fixed".into() } else { "id".into() }];
    crate::timer::verif::set_node_clock(Some(1));
    let _job = crate::watch::enter(
        format!("C05 fen={} depth={} no-answer", fen, k),
        format!("fresh engine, search of {:?} to depth {}: no answer after {} s of CPU time", fen, k, crate::watch::LIMIT_S),
        args.clone(),
    );
    let r = guard(|| {
        let mut s = Searcher::new();
        crate::search::verif::reset_tt_cutoffs();
        let (score, mv) = if fixed { s.verif_search_fixed(b, k) } else { s.find_best_move(b, k, None) };
        let (_, deeper) = crate::search::verif::tt_cutoffs();
        (score, mv, deeper)
    });
    match r {
        Err(e) => {
            rep.violation(format!("C05 fen={} depth={} mode={} panic", fen, k, if fixed { "fixed" } else { "id" }), format!("search of {:?} to depth {}: {}", fen, k, e), args, J::Null);
            (false, None, 0)
        }
        Ok((score, mv, deeper)) => {
            if deeper > 0 {
                // a result cached by a deeper search was reused: outside the property's quantifier
                return (true, None, deeper);
            }
            match compare(cache, mg, b, k, score, mv) {
                Ok(c) => (true, c, 0),
                Err(text) => {
                    rep.violation(
                        format!("C05 fen={} depth={} mode={}", fen, k, if fixed { "fixed" } else { "id" }),
                        format!("fresh engine, {} search of {:?} to depth {}: {}", if fixed { "fixed-depth" } else { "iterative-deepening" }, fen, k, text),
                        args,
                        J::obj().set("score", score).set("move", mv.map(|m| m.to_algebraic())),
                    );
                    (false, None, 0)
                }
            }
        }
    }
}

pub fn run(tier: &str, seed: u64, out: &str) {
    let rep = Report::new("C05", tier, seed);
    let thorough = tier == "thorough";
    if let Err(e) = crate::refchess::self_test(3) {
        eprintln!("MACHINERY ERROR: {}", e);
        std::process::exit(2);
    }
    crate::watch::start_default("C05", "model_checking", tier, seed, out);
    let mg = MoveGenerator::new();
    let cache = RefCache::new(if thorough { 200_000 } else { 50_000 });
    let mut per_root = Vec::new();
    let mut tot = Outcome { searched: 0, skipped_excluded: 0, skipped_deeper_reuse: 0, won: 0, lost: 0, exact: 0 };
    let mut samples = Vec::new();
    // only a guard against pathological slowness: coverage must not depend on how busy the machine is
    let wall_cap = if thorough { 6000.0 } else { 900.0 };
    for (name, fen, lq, lt) in SEARCH_ROOTS {
        if rep.saturated() {
            break;
        }
        if rep.elapsed() > wall_cap {
            rep.cap(format!("wall cap {} s reached before root {:?}", wall_cap, name));
            break;
        }
        let layers = if thorough { *lt } else { *lq };
        if layers == usize::MAX {
            continue; // thorough tier only
        }
        let states = neighbourhood(crate::eng::tl_mg(), &rep, fen, layers);
        let mut jobs: Vec<(Board, u8, bool)> = Vec::new();
        for b in &states {
            for k in 1..=3u8 {
                jobs.push((*b, k, false));
            }
        }
        // single fixed-depth searches to depth 4 (and 5 for the small endings), instrumented
        let small = is_small(name, fen);
        if thorough || small {
            let deep_roots: Vec<Board> = states.iter().cloned().take(if thorough { 400 } else { 40 }).collect();
            for b in &deep_roots {
                jobs.push((*b, 4, true));
                if small && thorough {
                    jobs.push((*b, 5, true));
                }
                // and through iterative deepening (find_best_move): what a `go depth 4/5` does
                if small {
                    jobs.push((*b, 4, false));
                    jobs.push((*b, 5, false));
                    if thorough {
                        jobs.push((*b, 6, false));
                    }
                }
            }
        }
        let results: Vec<(bool, Option<Class>, u64)> = par_map(&jobs, |(b, k, fixed)| check_one(&cache, crate::eng::tl_mg(), &rep, b, *k, *fixed));
        let mut o = Outcome { searched: 0, skipped_excluded: 0, skipped_deeper_reuse: 0, won: 0, lost: 0, exact: 0 };
        for (ok, class, deeper) in &results {
            o.searched += 1;
            if *deeper > 0 {
                o.skipped_deeper_reuse += 1;
            } else if *ok && class.is_none() {
                o.skipped_excluded += 1;
            }
            match class {
                Some(Class::Won) => o.won += 1,
                Some(Class::Lost) => o.lost += 1,
                Some(Class::Exact(_)) => o.exact += 1,
                None => {}
            }
        }
        eprintln!("[C05] {}: {} roots, {} searches, exact {} won {} lost {} skipped(q cap) {} skipped(deeper reuse) {} ({:.1}s)", name, states.len(), o.searched, o.exact, o.won, o.lost, o.skipped_excluded, o.skipped_deeper_reuse, rep.elapsed());
        if samples.len() < 6 {
            samples.push(J::obj().set("root", *fen).set("depths", "1..3 iterative deepening (+4/5 fixed where listed)").set("search_roots_in_neighbourhood", states.len()));
        }
        per_root.push(
            J::obj()
                .set("name", *name)
                .set("fen", *fen)
                .set("neighbourhood_layers", layers)
                .set("search_roots", states.len())
                .set("searches", o.searched)
                .set("compared_exact", o.exact)
                .set("compared_won", o.won)
                .set("compared_lost", o.lost)
                .set("skipped_quiescence_cap", o.skipped_excluded)
                .set("skipped_deeper_entry_reused", o.skipped_deeper_reuse),
        );
        tot.searched += o.searched;
        tot.skipped_excluded += o.skipped_excluded;
        tot.skipped_deeper_reuse += o.skipped_deeper_reuse;
        tot.won += o.won;
        tot.lost += o.lost;
        tot.exact += o.exact;
    }

    // ---- tactical roots (the repository's mate puzzles and a few more): mates, captures next to
    // mates, checks at the horizon. Middlegames cost a lot per reference value, so: the root and
    // its colour mirror to depth 1..2 (thorough 1..3), every state one ply away to depth 1 (thorough 1..2).
    if !rep.saturated() && rep.elapsed() <= wall_cap {
        let mut jobs: Vec<(Board, u8, bool)> = Vec::new();
        let mut n_roots = 0u64;
        for fen in crate::props::c08::TACTICAL_ROOTS {
            let p = Pos::from_fen(fen).unwrap();
            for q in [p.clone(), p.mirror()] {
                let states = neighbourhood(crate::eng::tl_mg(), &rep, &q.fen(0, 1), 1);
                let small = is_small("", fen);
                for (i, b) in states.iter().enumerate() {
                    let maxd: u8 = if i == 0 {
                        if thorough || small { 3 } else { 2 }
                    } else if thorough {
                        2
                    } else {
                        1
                    };
                    for k in 1..=maxd {
                        jobs.push((*b, k, false));
                    }
                }
                n_roots += 1;
            }
        }
        let results: Vec<(bool, Option<Class>, u64)> = par_map(&jobs, |(b, k, fixed)| check_one(&cache, crate::eng::tl_mg(), &rep, b, *k, *fixed));
        let mut o = Outcome { searched: 0, skipped_excluded: 0, skipped_deeper_reuse: 0, won: 0, lost: 0, exact: 0 };
        for (ok, class, deeper) in &results {
            o.searched += 1;
            if *deeper > 0 {
                o.skipped_deeper_reuse += 1;
            } else if *ok && class.is_none() {
                o.skipped_excluded += 1;
            }
            match class {
                Some(Class::Won) => o.won += 1,
                Some(Class::Lost) => o.lost += 1,
                Some(Class::Exact(_)) => o.exact += 1,
                None => {}
            }
        }
        eprintln!("[C05] tactical roots: {} roots, {} searches, exact {} won {} lost {} skipped(q cap) {} ({:.1}s)", n_roots, o.searched, o.exact, o.won, o.lost, o.skipped_excluded, rep.elapsed());
        per_root.push(
            J::obj()
                .set("name", "tactical roots (with colour mirrors) and every state one ply away")
                .set("roots", n_roots)
                .set("searches", o.searched)
                .set("compared_exact", o.exact)
                .set("compared_won", o.won)
                .set("compared_lost", o.lost)
                .set("skipped_quiescence_cap", o.skipped_excluded),
        );
        tot.searched += o.searched;
        tot.skipped_excluded += o.skipped_excluded;
        tot.won += o.won;
        tot.lost += o.lost;
        tot.exact += o.exact;
    }
    // ---- mate threats at the frontier: the retrograde classes of C08 (a mate in one by every
    // kind of mating move, with and without a capturable distractor) as search roots at the depth
    // that puts the mating move at a frontier node: the mate-in-one positions at depth 1, their
    // black predecessors (black can step into the mate) at depth 2. Pruning keyed on the static
    // evaluation (futility, razoring, delta) typically goes wrong exactly there.
    if !rep.saturated() && rep.elapsed() <= wall_cap {
        use crate::props::c08retro::{generate, RetroOptions};
        use crate::refchess::Kind::*;
        let region: Vec<u8> = vec![56, 57, 58, 59];
        let cap_q = [None, Some(Q)];
        let sets: Vec<Vec<crate::refchess::Kind>> = if thorough { vec![vec![P, Q], vec![P, R], vec![P, N], vec![P, B], vec![P, P], vec![N, N], vec![B, N], vec![R, N]] } else { vec![vec![P, Q], vec![P, N], vec![P, P], vec![N, N]] };
        let mut jobs: Vec<(Board, u8, bool)> = Vec::new();
        let mut n_attack = 0u64;
        let mut n_defence = 0u64;
        for mat in &sets {
            let o = RetroOptions { material: mat, region: &region, captured: &cap_q, keep_plain_heavy_moves: false, keep_heavy_promotions: mat[0] != P || mat[1] != Q && mat[1] != R, distractors: &[Q], defence: true, defence_from_distracted: false };
            let cls = generate(&o);
            for (list, depths, counter) in [(&cls.attack, if thorough { vec![1u8, 2, 3] } else { vec![1u8] }, &mut n_attack), (&cls.defence, if thorough { vec![2u8, 3] } else { vec![2u8] }, &mut n_defence)] {
                for p in list.iter() {
                    let variants: Vec<Pos> = if thorough { vec![p.clone(), p.mirror()] } else { vec![p.clone()] };
                    for q in variants {
                        if let Ok(b) = eng::board_of(&q) {
                            *counter += 1;
                            for k in &depths {
                                jobs.push((b, *k, false));
                            }
                        }
                    }
                }
            }
        }
        let results: Vec<(bool, Option<Class>, u64)> = par_map(&jobs, |(b, k, fixed)| check_one(&cache, crate::eng::tl_mg(), &rep, b, *k, *fixed));
        let mut o = Outcome { searched: 0, skipped_excluded: 0, skipped_deeper_reuse: 0, won: 0, lost: 0, exact: 0 };
        for (ok, class, deeper) in &results {
            o.searched += 1;
            if *deeper > 0 {
                o.skipped_deeper_reuse += 1;
            } else if *ok && class.is_none() {
                o.skipped_excluded += 1;
            }
            match class {
                Some(Class::Won) => o.won += 1,
                Some(Class::Lost) => o.lost += 1,
                Some(Class::Exact(_)) => o.exact += 1,
                None => {}
            }
        }
        eprintln!("[C05] retrograde mate-threat roots: {} mate-in-one positions, {} black predecessors, {} searches, exact {} won {} lost {} ({:.1}s)", n_attack, n_defence, o.searched, o.exact, o.won, o.lost, rep.elapsed());
        per_root.push(
            J::obj()
                .set("name", "retrograde mate-threat roots (see C08: every mating move type, with/without a distractor; mated king on a8..d8)")
                .set("materials", sets.iter().map(|m| format!("K+{:?} v k", m)).collect::<Vec<_>>())
                .set("mate_in_one_positions", n_attack)
                .set("black_predecessors", n_defence)
                .set("depths", if thorough { "mate-in-one positions 1..3, predecessors 2..3, both colours" } else { "mate-in-one positions 1, predecessors 2" })
                .set("searches", o.searched)
                .set("compared_exact", o.exact)
                .set("compared_won", o.won)
                .set("compared_lost", o.lost)
                .set("skipped_quiescence_cap", o.skipped_excluded),
        );
        tot.searched += o.searched;
        tot.skipped_excluded += o.skipped_excluded;
        tot.won += o.won;
        tot.lost += o.lost;
        tot.exact += o.exact;
    }
    let ref_states = cache.v_states.load(Ordering::Relaxed) + cache.q_calls.load(Ordering::Relaxed);
    let cov = J::obj()
        .set("states", ref_states)
        .set("transitions", cache.v_states.load(Ordering::Relaxed))
        .set("traces_validated_against_impl", tot.exact + tot.won + tot.lost)
        .set("evaluations", tot.searched)
        .set("distinct_nontrivial", tot.exact + tot.won + tot.lost)
        .set("rule", "a case = (search root, depth, mode) searched on a fresh Searcher and compared with the memoised unpruned minimax over the subject's own move generator with the subject's full-window quiescence at the leaves; non-trivial = actually compared (not skipped)")
        .set("reference_states_with_value", cache.v_states.load(Ordering::Relaxed))
        .set("quiescence_leaves_evaluated", cache.q_calls.load(Ordering::Relaxed))
        .set("quiescence_nodes", cache.q_nodes.load(Ordering::Relaxed))
        .set("quiescence_leaves_over_node_cap", cache.q_excluded.load(Ordering::Relaxed))
        .set("quiescence_node_cap", cache.q_cap)
        .set("searches", tot.searched)
        .set("compared_exact", tot.exact)
        .set("compared_won", tot.won)
        .set("compared_lost", tot.lost)
        .set("skipped_quiescence_cap", tot.skipped_excluded)
        .set("skipped_deeper_entry_reused", tot.skipped_deeper_reuse)
        .set("roots", J::Arr(per_root))
        .set("samples", J::Arr(samples))
        .set("exhaustive", false);
    rep.finish(
        "model_checking",
        cov,
        vec![
            "leaf values are the subject's own quiescence values (by the property's definition); successor generation is the subject's (checked by C01/C02)".into(),
            "scores at or beyond +-32767 are compared as won/lost only".into(),
            "search roots are the complete depth-limited neighbourhoods listed, not all positions".into(),
        ],
        out,
    );
}

pub fn replay_one(fen: &str, k: u8, fixed: bool) -> i32 {
    let rep = Report::new("C05", "quick", 0);
    let mg = MoveGenerator::new();
    let cache = RefCache::new(200_000);
    let b = eng::board_of_fen(&format!("{} 0 1", Pos::from_fen(fen).unwrap().fen4())).unwrap();
    let (ok, class, deeper) = check_one(&cache, crate::eng::tl_mg(), &rep, &b, k, fixed);
    let v = rep.violations.lock().unwrap();
    for x in v.iter() {
        println!("REPLAY-VIOLATION {} :: {}", x.sig, x.text);
    }
    if v.is_empty() {
        println!("REPLAY-OK C05 {} depth {} class {:?} deeper_reuse {}", fen, k, class, deeper);
        0
    } else {
        1
    }
}
