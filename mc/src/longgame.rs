//! A built (not drawn) legal game of thousands of plies, shared by C04 (every prefix as a position
//! command) and C03 (a search after the whole game).
use crate::refchess::{Kind, Mv, Pos};

/// A legal game of thousands of plies from the start position, built (not drawn): blocks of at most
/// 148 plies in which only knights move, along a path that visits no position twice, separated by
/// single pawn pushes (32 of them exist without captures). So no position occurs twice in the whole
/// game and no 75 moves pass without a pawn move: the game is legal under the automatic fivefold
/// and 75-move rules however long it gets. No captures, no checks, kings and rooks never move.
pub fn very_long_game(target: usize) -> Vec<Mv> {
    fn quiet_knight_moves(p: &Pos) -> Vec<Mv> {
        let mut ms: Vec<Mv> = p
            .legal_moves()
            .into_iter()
            .filter(|m| matches!(p.sq[m.from as usize], Some((_, Kind::N))) && p.sq[m.to as usize].is_none())
            .filter(|m| {
                let n = p.make(*m);
                !n.in_check(n.stm)
            })
            .collect();
        ms.sort();
        ms
    }
    /// depth-first search for a path of `len` knight moves through positions not in `seen`
    fn block(p: &Pos, len: usize, seen: &mut std::collections::HashSet<String>, out: &mut Vec<Mv>, budget: &mut u64) -> bool {
        if len == 0 {
            return true;
        }
        for m in quiet_knight_moves(p) {
            if *budget == 0 {
                return false;
            }
            let n = p.make(m);
            let k = n.fen4();
            if seen.contains(&k) || quiet_knight_moves(&n).is_empty() {
                continue;
            }
            *budget -= 1;
            seen.insert(k.clone());
            out.push(m);
            if block(&n, len - 1, seen, out, budget) {
                return true;
            }
            out.pop();
            seen.remove(&k);
        }
        false
    }
    let mut cur = Pos::start();
    let mut out: Vec<Mv> = Vec::new();
    while out.len() < target {
        let want = 148.min(target - out.len());
        let mut seen = std::collections::HashSet::new();
        seen.insert(cur.fen4());
        let mut path = Vec::new();
        let mut budget = 200_000u64;
        if !block(&cur, want, &mut seen, &mut path, &mut budget) {
            break;
        }
        for m in &path {
            cur = cur.make(*m);
        }
        out.extend(path);
        if out.len() >= target {
            break;
        }
        // one single pawn push by the side to move (no capture, no check)
        let mut pushes: Vec<Mv> = cur
            .legal_moves()
            .into_iter()
            .filter(|m| matches!(cur.sq[m.from as usize], Some((_, Kind::P))) && (m.to as i32 - m.from as i32).abs() == 8 && m.promo.is_none())
            .filter(|m| {
                let n = cur.make(*m);
                !n.in_check(n.stm) && !quiet_knight_moves(&n).is_empty()
            })
            .collect();
        pushes.sort();
        match pushes.first() {
            Some(m) => {
                cur = cur.make(*m);
                out.push(*m);
            }
            None => break,
        }
    }
    out
}

