//! Watchdog: a call into the subject that does not return within LIMIT_S seconds of wall time
//! is reported as a violation (with the case that was running) instead of hanging the check.
//! Wall time is used only as this emergency horizon; no other verdict depends on it.
use std::collections::HashMap;
use std::sync::Mutex;
use std::time::Instant;

pub const LIMIT_S: u64 = 45;

type Job = (Instant, String, String, Vec<String>);
static JOBS: Mutex<Option<HashMap<u64, Job>>> = Mutex::new(None);
static NEXT: std::sync::atomic::AtomicU64 = std::sync::atomic::AtomicU64::new(1);

pub struct Guard(u64);

impl Drop for Guard {
    fn drop(&mut self) {
        if let Some(m) = JOBS.lock().unwrap().as_mut() {
            m.remove(&self.0);
        }
    }
}

pub fn enter(sig: String, text: String, args: Vec<String>) -> Guard {
    let id = NEXT.fetch_add(1, std::sync::atomic::Ordering::Relaxed);
    let mut g = JOBS.lock().unwrap();
    g.get_or_insert_with(HashMap::new).insert(id, (Instant::now(), sig, text, args));
    Guard(id)
}

/// Starts the watchdog thread; `on_timeout(sig, text, replay_args)` must not return.
pub fn start(on_timeout: impl Fn(String, String, Vec<String>) + Send + 'static) {
    std::thread::spawn(move || loop {
        std::thread::sleep(std::time::Duration::from_millis(500));
        let hit = {
            let g = JOBS.lock().unwrap();
            g.as_ref().and_then(|m| m.values().find(|j| j.0.elapsed().as_secs() >= LIMIT_S).cloned())
        };
        if let Some((_, sig, text, args)) = hit {
            on_timeout(sig, text, args);
        }
    });
}
