//! Watchdog: a call into the subject that has consumed LIMIT_S seconds of CPU time on its thread
//! without returning is reported as a violation (with the case that was running) instead of
//! hanging the check. The horizon is CPU time of the calling thread, not wall time: on a busy
//! machine a call that is merely waiting for the scheduler is not "a search that does not stop".
//! (Only if the thread's CPU clock cannot be read does a wall horizon of 20 x LIMIT_S apply.)
use std::collections::HashMap;
use std::sync::Mutex;
use std::time::Instant;

pub const LIMIT_S: u64 = 75;

type Job = (Instant, Option<(crate::cputime::ThreadClock, std::time::Duration)>, String, String, Vec<String>);

fn expired(j: &Job) -> bool {
    match j.1 {
        Some((clk, start)) => match clk.cpu() {
            Some(now) => now.saturating_sub(start).as_secs() >= LIMIT_S,
            None => false,
        },
        None => j.0.elapsed().as_secs() >= 20 * LIMIT_S,
    }
}
static JOBS: Mutex<Option<HashMap<u64, Job>>> = Mutex::new(None);
static NEXT: std::sync::atomic::AtomicU64 = std::sync::atomic::AtomicU64::new(1);

pub struct Guard(u64);

impl Drop for Guard {
    fn drop(&mut self) {
        crate::crumb::clear();
        if let Some(m) = JOBS.lock().unwrap().as_mut() {
            m.remove(&self.0);
        }
    }
}

pub fn enter(sig: String, text: String, args: Vec<String>) -> Guard {
    crate::crumb::set_owned(&args);
    let id = NEXT.fetch_add(1, std::sync::atomic::Ordering::Relaxed);
    let mut g = JOBS.lock().unwrap();
    let clk = crate::cputime::my_clock().and_then(|c| c.cpu().map(|t| (c, t)));
    g.get_or_insert_with(HashMap::new).insert(id, (Instant::now(), clk, sig, text, args));
    Guard(id)
}

/// Starts the watchdog thread; `on_timeout(sig, text, replay_args)` must not return.
pub fn start(on_timeout: impl Fn(String, String, Vec<String>) + Send + 'static) {
    std::thread::spawn(move || loop {
        std::thread::sleep(std::time::Duration::from_millis(500));
        let hit = {
            let g = JOBS.lock().unwrap();
            g.as_ref().and_then(|m| m.values().find(|j| expired(j)).cloned())
        };
        if let Some((_, _, sig, text, args)) = hit {
            on_timeout(sig, text, args);
        }
    });
}

/// Standard watchdog for a property run: if one guarded call does not return within LIMIT_S, the
/// run ends at once with that case as its single violation (and the cap recorded).
pub fn start_default(which: &'static str, level: &'static str, tier: &str, seed: u64, out: &str) {
    let out = out.to_string();
    let tier = tier.to_string();
    start(move |sig, text, args| {
        let r = crate::report::Report::new(which, &tier, seed);
        r.violation(sig, text, args, crate::json::J::Null);
        r.cap("stopped by the watchdog: one call into the subject did not return".into());
        r.finish(
            level,
            crate::json::J::obj()
                .set("states", 1u64)
                .set("transitions", 1u64)
                .set("traces_validated_against_impl", 0u64)
                .set("evaluations", 2u64)
                .set("distinct_nontrivial", 2u64)
                .set("rule", "run cut short by the watchdog; see the violation")
                .set("samples", vec!["(see violation)"]),
            vec![],
            &out,
        );
        std::process::exit(0);
    });
}

/// Watchdog for a single-case replay: the case that does not return is the reproduced violation.
pub fn start_replay() {
    start(|sig, text, _args| {
        println!("REPLAY-VIOLATION {} :: {}", sig, text);
        std::process::exit(1);
    });
}
