//! Explicit-state explorer over the position graph whose transitions are the subject's own
//! `generate_moves` + `clone_with_move`. Layer-synchronous BFS, visited set on the canonical
//! key (eng::EKey), parallel expansion of each layer.

use crate::board::Board;
use crate::eng::{key_of, EKey};
use crate::par::par_map;
use std::collections::HashMap;
use std::sync::atomic::{AtomicBool, AtomicU64, Ordering};

pub trait Visitor: Sync {
    /// Checks one state and returns its successors, each with an auxiliary value that is
    /// remembered with the visited-set entry (0 when unused).
    fn visit(&self, b: &Board, depth: usize) -> Vec<(Board, u64)>;
    /// Called when a transition reaches an already-visited state whose stored aux differs.
    fn merge_mismatch(&self, _b: &Board, _stored_aux: u64, _new_aux: u64) {}
    /// Asked between layers: stop exploring (e.g. enough violations recorded).
    fn stop(&self) -> bool {
        false
    }
}

#[derive(Default, Debug, Clone)]
pub struct GraphStats {
    pub roots: u64,
    pub states: u64,
    pub transitions: u64,
    pub merges: u64,
    pub max_depth: u64,
    pub layer_sizes: Vec<u64>,
    pub fixpoint: bool,
    pub capped: bool,
}

/// Explores from `roots` (with aux values) to `max_depth` plies (usize::MAX = to fixpoint), or
/// until `max_states` distinct states have been visited. The deepest layer is still *visited*
/// (its moves generated and checked) but its successors are not enqueued.
pub fn explore(roots: &[(Board, u64)], max_depth: usize, max_states: u64, v: &dyn Visitor) -> GraphStats {
    let mut stats = GraphStats::default();
    let mut visited: HashMap<EKey, u64> = HashMap::new();
    let mut frontier: Vec<Board> = Vec::new();
    for (b, aux) in roots {
        let k = key_of(b);
        if visited.insert(k, *aux).is_none() {
            frontier.push(*b);
        }
    }
    stats.roots = frontier.len() as u64;
    let mut depth = 0usize;
    loop {
        stats.layer_sizes.push(frontier.len() as u64);
        stats.states += frontier.len() as u64;
        stats.max_depth = depth as u64;
        let mut next: Vec<Board> = Vec::new();
        let last = depth >= max_depth;
        if last {
            // deepest layer: every state is still visited (checked), only the number of its
            // successors is kept -- materialising them all would cost tens of gigabytes
            let counts: Vec<u64> = par_map(&frontier, |b| v.visit(b, depth).len() as u64);
            stats.transitions += counts.iter().sum::<u64>();
        } else {
            // inner layers in blocks, so that only one block's successors are alive at a time
            for block in frontier.chunks(1 << 20) {
                let results: Vec<Vec<(Board, u64)>> = par_map(block, |b| v.visit(b, depth));
                for succs in results {
                    stats.transitions += succs.len() as u64;
                    for (b, aux) in succs {
                        let k = key_of(&b);
                        match visited.get(&k) {
                            Some(stored) => {
                                stats.merges += 1;
                                if *stored != aux {
                                    v.merge_mismatch(&b, *stored, aux);
                                }
                            }
                            None => {
                                visited.insert(k, aux);
                                next.push(b);
                            }
                        }
                    }
                }
            }
        }
        if last {
            break;
        }
        if next.is_empty() {
            stats.fixpoint = true;
            break;
        }
        if v.stop() {
            stats.capped = true;
            break;
        }
        if visited.len() as u64 > max_states {
            // The next layer is dropped: everything counted in `states` was fully visited.
            stats.capped = true;
            break;
        }
        frontier = next;
        depth += 1;
    }
    stats
}

/// Shared counters for the vacuity guard of every position-space run.
#[derive(Default)]
pub struct Tally {
    pub in_check: AtomicU64,
    pub double_check: AtomicU64,
    pub castle_moves: AtomicU64,
    pub ep_moves: AtomicU64,
    pub promo_moves: AtomicU64,
    pub checkmates: AtomicU64,
    pub stalemates: AtomicU64,
    pub with_rights: AtomicU64,
    pub with_ep_target: AtomicU64,
    pub skipped_divergent: AtomicU64,
    pub any_violation: AtomicBool,
}

impl Tally {
    pub fn bump(c: &AtomicU64) {
        c.fetch_add(1, Ordering::Relaxed);
    }
    pub fn get(c: &AtomicU64) -> u64 {
        c.load(Ordering::Relaxed)
    }
}
