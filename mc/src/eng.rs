//! Adapter between the subject's types (bound from /repo/src by path) and the model's.
//! Everything that calls into the subject goes through `guard` (catch_unwind).

use crate::board::Board;
use crate::moves::{Move, MoveType};
use crate::pieces::{Color, Piece};
use crate::refchess::{Kind, Mv, Pos, Side};
use std::panic::{catch_unwind, AssertUnwindSafe};

pub const PIECES: [Piece; 6] = [
    Piece::Pawn,
    Piece::Knight,
    Piece::Bishop,
    Piece::Rook,
    Piece::Queen,
    Piece::King,
];

pub fn kind_of(p: Piece) -> Kind {
    match p {
        Piece::Pawn => Kind::P,
        Piece::Knight => Kind::N,
        Piece::Bishop => Kind::B,
        Piece::Rook => Kind::R,
        Piece::Queen => Kind::Q,
        Piece::King => Kind::K,
    }
}

pub fn side_of(c: Color) -> Side {
    match c {
        Color::White => Side::W,
        Color::Black => Side::B,
    }
}

/// Runs a call into the subject; a panic becomes Err(message).
pub fn guard<R>(f: impl FnOnce() -> R) -> Result<R, String> {
    match catch_unwind(AssertUnwindSafe(f)) {
        Ok(r) => Ok(r),
        Err(e) => {
            let msg = if let Some(s) = e.downcast_ref::<&str>() {
                s.to_string()
            } else if let Some(s) = e.downcast_ref::<String>() {
                s.clone()
            } else {
                "panic (non-string payload)".to_string()
            };
            Err(format!("subject panicked: {}", msg))
        }
    }
}

/// Canonical state key: the eight raw bitboards + side + rights + en-passant target.
/// Raw boards (not per-square lookups) so that an inconsistent board (a piece bit without a
/// colour bit) is a *different* state rather than being hidden.
#[derive(Clone, Copy, PartialEq, Eq, Hash, Debug, PartialOrd, Ord)]
pub struct EKey {
    pub pieces: [u64; 6],
    pub colors: [u64; 2],
    pub stm: u8,
    pub castle: u8,
    pub ep: u8,
}

pub fn key_of(b: &Board) -> EKey {
    let mut pieces = [0u64; 6];
    for (i, p) in PIECES.iter().enumerate() {
        pieces[i] = b.bb_piece(*p);
    }
    let (wk, wq) = b.castling_ability(Color::White);
    let (bk, bq) = b.castling_ability(Color::Black);
    EKey {
        pieces,
        colors: [b.bb_color(Color::White), b.bb_color(Color::Black)],
        stm: if b.active_color() == Color::White { 0 } else { 1 },
        castle: (wk as u8) | (wq as u8) << 1 | (bk as u8) << 2 | (bq as u8) << 3,
        ep: b.en_passant_target.unwrap_or(255),
    }
}

/// The key the model position would have on a consistent board.
pub fn key_of_pos(p: &Pos) -> EKey {
    let mut pieces = [0u64; 6];
    let mut colors = [0u64; 2];
    for s in 0..64 {
        if let Some((side, kind)) = p.sq[s] {
            pieces[kind as usize] |= 1u64 << s;
            colors[side as usize] |= 1u64 << s;
        }
    }
    EKey {
        pieces,
        colors,
        stm: p.stm as u8,
        castle: (p.castle[0] as u8) | (p.castle[1] as u8) << 1 | (p.castle[2] as u8) << 2 | (p.castle[3] as u8) << 3,
        ep: p.ep.unwrap_or(255),
    }
}

/// Internal consistency of a board (C02): piece boards pairwise disjoint, colour boards
/// disjoint, unions coincide, the per-square accessors agree with the raw boards, one king each.
pub fn consistency(b: &Board) -> Result<(), String> {
    let k = key_of(b);
    let mut union_p = 0u64;
    for i in 0..6 {
        if union_p & k.pieces[i] != 0 {
            return Err(format!("two piece kinds share a square: {:#x}", union_p & k.pieces[i]));
        }
        union_p |= k.pieces[i];
    }
    if k.colors[0] & k.colors[1] != 0 {
        return Err(format!("a square holds both colours: {:#x}", k.colors[0] & k.colors[1]));
    }
    if union_p != (k.colors[0] | k.colors[1]) {
        return Err(format!(
            "piece boards and colour boards differ: pieces {:#x} colours {:#x}",
            union_p,
            k.colors[0] | k.colors[1]
        ));
    }
    for c in [Color::White, Color::Black] {
        let n = b.bb(c, Piece::King).count_ones();
        if n != 1 {
            return Err(format!("{:?} has {} kings", c, n));
        }
    }
    for s in 0..64u8 {
        let bit = 1u64 << s;
        let via_piece = b.get_piece_at(s).map(kind_of);
        let via_color = b.get_color_at(s).map(side_of);
        let raw_piece = (0..6).find(|i| k.pieces[*i] & bit != 0);
        let raw_color = (0..2).find(|i| k.colors[*i] & bit != 0);
        if via_piece.map(|x| x as usize) != raw_piece || via_color.map(|x| x as usize) != raw_color {
            return Err(format!("get_piece_at/get_color_at disagree with the bitboards on square {}", s));
        }
    }
    Ok(())
}

/// Reads the engine board as a model position (requires a consistent board).
pub fn pos_of(b: &Board) -> Result<Pos, String> {
    consistency(b)?;
    let k = key_of(b);
    let mut p = Pos::empty();
    for s in 0..64usize {
        let bit = 1u64 << s;
        if let Some(i) = (0..6).find(|i| k.pieces[*i] & bit != 0) {
            let side = if k.colors[0] & bit != 0 { Side::W } else { Side::B };
            p.sq[s] = Some((side, crate::refchess::KINDS[i]));
        }
    }
    p.stm = if k.stm == 0 { Side::W } else { Side::B };
    p.castle = [k.castle & 1 != 0, k.castle & 2 != 0, k.castle & 4 != 0, k.castle & 8 != 0];
    p.ep = if k.ep == 255 { None } else { Some(k.ep) };
    Ok(p)
}

/// Builds an engine board from a model position through the engine's own FEN reader.
pub fn board_of(p: &Pos) -> Result<Board, String> {
    let fen = p.fen(0, 1);
    guard(|| crate::fen::fen_to_board(&fen))?.map_err(|e| format!("engine rejected FEN {:?}: {}", fen, e))
}

pub fn board_of_fen(fen: &str) -> Result<Board, String> {
    guard(|| crate::fen::fen_to_board(fen))?.map_err(|e| format!("engine rejected FEN {:?}: {}", fen, e))
}

pub fn mv_of(m: &Move) -> Mv {
    Mv {
        from: m.from,
        to: m.to,
        promo: if m.move_type == MoveType::Promotion {
            Some(kind_of(m.piece_type))
        } else {
            None
        },
    }
}

pub fn fen_of(b: &Board) -> String {
    match pos_of(b) {
        Ok(p) => p.fen(0, 1),
        Err(e) => format!("<inconsistent board: {} key={:?}>", e, key_of(b)),
    }
}

pub fn describe_key(k: &EKey) -> String {
    format!(
        "P={:#x} N={:#x} B={:#x} R={:#x} Q={:#x} K={:#x} white={:#x} black={:#x} stm={} castle={:#06b} ep={}",
        k.pieces[0], k.pieces[1], k.pieces[2], k.pieces[3], k.pieces[4], k.pieces[5], k.colors[0], k.colors[1],
        if k.stm == 0 { "w" } else { "b" }, k.castle,
        if k.ep == 255 { "-".to_string() } else { crate::refchess::sq_name(k.ep) }
    )
}

pub fn moves_text(ms: &[Mv]) -> String {
    let mut v: Vec<String> = ms.iter().map(|m| m.uci()).collect();
    v.sort();
    v.join(" ")
}


thread_local! {
    static TL_MG: &'static crate::move_gen::MoveGenerator = Box::leak(Box::new(crate::move_gen::MoveGenerator::new()));
}

/// This thread's own move generator (created on first use, lives as long as the process). Worker
/// closures take it from here instead of sharing one across threads: a generator that keeps
/// state of its own (a cache behind a Cell) is not shareable, and must not stop the harness from
/// building.
pub fn tl_mg() -> &'static crate::move_gen::MoveGenerator {
    TL_MG.with(|m| *m)
}
