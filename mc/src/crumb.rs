//! Breadcrumbs: which case each worker thread is executing, kept in static memory so that a
//! SIGABRT handler can write them out. A subject that aborts the whole process on some input
//! (unbounded recursion -> stack overflow, std::process::abort) cannot be caught by
//! catch_unwind; with the breadcrumbs the runner replays the cases that were in flight, one
//! process each, and the one that aborts again is reported as a violation with its replay --
//! instead of an unattributed machinery error.
//!
//! Enabled by VERIF_CRUMBS=<file>. The handler only calls write(2) and _exit(2).

use std::sync::atomic::{AtomicI32, AtomicUsize, Ordering};

const SLOTS: usize = 256;
const LEN: usize = 2048;
const SEP: u8 = 0x1f;

static mut BUF: [[u8; LEN]; SLOTS] = [[0; LEN]; SLOTS];
static LENS: [AtomicUsize; SLOTS] = [const { AtomicUsize::new(0) }; SLOTS];
static NEXT: AtomicUsize = AtomicUsize::new(0);
static FD: AtomicI32 = AtomicI32::new(-1);

thread_local! {
    static SLOT: usize = NEXT.fetch_add(1, Ordering::Relaxed) % SLOTS;
}

extern "C" {
    fn signal(sig: i32, handler: usize) -> usize;
    fn write(fd: i32, buf: *const u8, n: usize) -> isize;
    fn _exit(code: i32) -> !;
}

extern "C" fn on_abort(_sig: i32) {
    let fd = FD.load(Ordering::Relaxed);
    if fd >= 0 {
        for s in 0..SLOTS {
            let n = LENS[s].load(Ordering::Relaxed).min(LEN);
            if n > 0 {
                unsafe {
                    let p = std::ptr::addr_of!(BUF[s]) as *const u8;
                    write(fd, p, n);
                    write(fd, b"\n".as_ptr(), 1);
                }
            }
        }
    }
    unsafe { _exit(134) }
}

pub fn install() {
    if let Ok(path) = std::env::var("VERIF_CRUMBS") {
        if let Ok(f) = std::fs::File::create(&path) {
            use std::os::unix::io::IntoRawFd;
            FD.store(f.into_raw_fd(), Ordering::Relaxed);
            unsafe {
                signal(6, on_abort as usize);
            }
        }
    }
}

#[inline]
pub fn enabled() -> bool {
    FD.load(Ordering::Relaxed) >= 0
}

/// Records the replay arguments of the case this thread is about to run.
pub fn set(args: &[&str]) {
    if !enabled() {
        return;
    }
    SLOT.with(|s| {
        let s = *s;
        let mut n = 0usize;
        unsafe {
            let buf = &mut *std::ptr::addr_of_mut!(BUF[s]);
            LENS[s].store(0, Ordering::Relaxed);
            for (i, a) in args.iter().enumerate() {
                if i > 0 && n < LEN {
                    buf[n] = SEP;
                    n += 1;
                }
                let b = a.as_bytes();
                let k = b.len().min(LEN - n);
                buf[n..n + k].copy_from_slice(&b[..k]);
                n += k;
            }
        }
        LENS[s].store(n, Ordering::Relaxed);
    });
}

pub fn set_owned(args: &[String]) {
    if !enabled() {
        return;
    }
    let v: Vec<&str> = args.iter().map(|s| s.as_str()).collect();
    set(&v);
}

/// The case is over (nothing of this thread is in flight).
pub fn clear() {
    if !enabled() {
        return;
    }
    SLOT.with(|s| LENS[*s].store(0, Ordering::Relaxed));
}
