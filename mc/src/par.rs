//! Minimal data-parallel helpers on std threads (no external crates are available).
use std::sync::atomic::{AtomicUsize, Ordering};
use std::sync::Mutex;

pub fn threads() -> usize {
    if let Ok(v) = std::env::var("VERIF_THREADS") {
        if let Ok(n) = v.parse::<usize>() {
            if n > 0 {
                return n;
            }
        }
    }
    std::thread::available_parallelism().map(|n| n.get()).unwrap_or(4)
}

/// Applies `f` to every item, in parallel, results in input order. `init` builds one
/// piece of per-thread state (e.g. a Searcher, whose construction costs 8 ms).
pub fn par_map_init<T: Sync, R: Send, S>(
    items: &[T],
    init: impl Fn() -> S + Sync,
    f: impl Fn(&mut S, &T) -> R + Sync,
) -> Vec<R> {
    let n = items.len();
    let nthreads = threads().min(n.max(1));
    let next = AtomicUsize::new(0);
    let chunk = (n / (nthreads * 16)).clamp(1, 4096);
    let out: Mutex<Vec<(usize, Vec<R>)>> = Mutex::new(Vec::new());
    std::thread::scope(|scope| {
        for _ in 0..nthreads {
            scope.spawn(|| {
                let mut state = init();
                loop {
                    let start = next.fetch_add(chunk, Ordering::Relaxed);
                    if start >= n {
                        break;
                    }
                    let end = (start + chunk).min(n);
                    let mut local = Vec::with_capacity(end - start);
                    for item in &items[start..end] {
                        local.push(f(&mut state, item));
                    }
                    out.lock().unwrap().push((start, local));
                }
            });
        }
    });
    let mut parts = out.into_inner().unwrap();
    parts.sort_by_key(|(s, _)| *s);
    let mut res = Vec::with_capacity(n);
    for (_, v) in parts {
        res.extend(v);
    }
    res
}

pub fn par_map<T: Sync, R: Send>(items: &[T], f: impl Fn(&T) -> R + Sync) -> Vec<R> {
    par_map_init(items, || (), |_, t| f(t))
}
