//! Builder of "extreme" roots (a tool for choosing inputs, never a verdict): local search over
//! placements with material a game can reach (at most 8 pawns and 16 men a side, promoted men
//! only in place of missing pawns) for positions that maximise a count the rules model computes:
//! legal moves, tactical moves (captures, promotions, checks), legal moves while in check.
//! The positions it found are listed in roots.rs with the counts they must have (checked at
//! start-up), so the search itself never runs inside a check.

use crate::refchess::{Kind, Pos, Side};

fn material_ok(p: &Pos) -> bool {
    for side in [Side::W, Side::B] {
        let pawns = p.count(side, Kind::P);
        let extra = p.count(side, Kind::Q).saturating_sub(1) + p.count(side, Kind::R).saturating_sub(2) + p.count(side, Kind::B).saturating_sub(2) + p.count(side, Kind::N).saturating_sub(2);
        if pawns > 8 || pawns + extra > 8 {
            return false;
        }
    }
    true
}

pub fn objective(p: &Pos, what: &str) -> i64 {
    match what {
        "legal" => p.legal_moves().len() as i64,
        "tactical" => {
            if p.in_check(p.stm) {
                -1
            } else {
                p.tactical_moves().len() as i64
            }
        }
        "captures" => {
            if p.in_check(p.stm) {
                -1
            } else {
                p.legal_moves().into_iter().filter(|m| p.is_capture(*m)).count() as i64
            }
        }
        "evasions" => {
            if p.in_check(p.stm) {
                p.legal_moves().len() as i64
            } else {
                -1
            }
        }
        "checks" => {
            if p.in_check(p.stm) {
                -1
            } else {
                p.legal_moves().into_iter().filter(|m| p.gives_check(*m) && !p.is_capture(*m) && m.promo.is_none()).count() as i64
            }
        }
        _ => panic!("unknown objective"),
    }
}

pub fn climb(what: &str, seed: u64, steps: u64) -> (i64, String) {
    let mut x = seed.wrapping_mul(0x9E3779B97F4A7C15) | 1;
    let mut rnd = move || {
        x ^= x << 13;
        x ^= x >> 7;
        x ^= x << 17;
        x
    };
    let kinds = [Kind::P, Kind::N, Kind::B, Kind::R, Kind::Q];
    let mut cur = Pos::from_fen("4k3/8/8/8/8/8/8/4K3 w - - 0 1").unwrap();
    let mut best = objective(&cur, what);
    for step in 0..steps {
        let mut q = cur.clone();
        let n = 1 + rnd() % 2;
        for _ in 0..n {
            let s = (rnd() % 64) as usize;
            match rnd() % 4 {
                0 => {
                    if !matches!(q.sq[s], Some((_, Kind::K))) {
                        q.sq[s] = None;
                    }
                }
                1 | 2 => {
                    if !matches!(q.sq[s], Some((_, Kind::K))) {
                        let side = if rnd() % 2 == 0 { Side::W } else { Side::B };
                        q.sq[s] = Some((side, kinds[(rnd() % 5) as usize]));
                    }
                }
                _ => {
                    let t = (rnd() % 64) as usize;
                    if !matches!(q.sq[t], Some((_, Kind::K))) {
                        let a = q.sq[s];
                        q.sq[s] = q.sq[t];
                        q.sq[t] = a;
                    }
                }
            }
        }
        if !material_ok(&q) || q.validity().is_err() {
            continue;
        }
        let v = objective(&q, what);
        // accept equal moves (plateau walk) and, early on, slightly worse ones
        let slack = if step < steps / 2 && rnd() % 50 == 0 { 2 } else { 0 };
        if v + slack >= best {
            cur = q;
            best = v;
        }
    }
    (best, cur.fen(0, 1))
}
