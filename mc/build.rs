// Binds the harness to the repository's source: reads <repo>/src/main.rs, and for every
// `mod x;` declared there emits `#[path = "<repo>/src/x.rs"] pub mod x;` into a file that
// src/main.rs includes at the crate root. `crate::board::Board` etc. therefore resolve to the
// repository's own files, and cargo's dep-info makes every check rebuild when any of them change.
use std::{env, fs, path::PathBuf};

fn main() {
    let repo = env::var("FLOUNDER_REPO").unwrap_or_else(|_| "/repo".to_string());
    println!("cargo:rerun-if-env-changed=FLOUNDER_REPO");
    println!("cargo:rerun-if-changed={}/src/main.rs", repo);
    println!("cargo:rerun-if-changed=build.rs");
    println!("cargo:rustc-check-cfg=cfg(flounder_verif)");
    println!("cargo:rustc-cfg=flounder_verif");
    println!("cargo:rustc-env=FLOUNDER_REPO_BOUND={}", repo);

    let main_rs = fs::read_to_string(format!("{}/src/main.rs", repo))
        .unwrap_or_else(|e| panic!("cannot read {}/src/main.rs: {}", repo, e));
    let mut out = String::new();
    let mut names = Vec::new();
    for line in main_rs.lines() {
        let l = line.trim();
        let l = l.strip_prefix("pub ").unwrap_or(l);
        if let Some(rest) = l.strip_prefix("mod ") {
            if let Some(name) = rest.strip_suffix(';') {
                let name = name.trim();
                let file = format!("{}/src/{}.rs", repo, name);
                let file = if PathBuf::from(&file).exists() {
                    file
                } else {
                    format!("{}/src/{}/mod.rs", repo, name)
                };
                out.push_str(&format!("#[path = \"{}\"]\npub mod {};\n", file, name));
                names.push(name.to_string());
            }
        }
    }
    out.push_str(&format!(
        "pub const REPO_MODULES: &[&str] = &[{}];\n",
        names.iter().map(|n| format!("\"{}\"", n)).collect::<Vec<_>>().join(", ")
    ));
    let dest = PathBuf::from(env::var("OUT_DIR").unwrap()).join("repo_mods.rs");
    fs::write(dest, out).unwrap();
}
