#!/usr/bin/env python3
"""Generates /verif/MANIFEST.json from one table (run after adding or changing a check)."""
import json, os, subprocess
V = os.path.dirname(os.path.dirname(os.path.abspath(__file__)))

# id: (claimed, category, technique, level text, level note, design section)
T = {
 "C01": (True, "model_checking", "explicit-state exploration of the position graph through the real generate_moves/clone_with_move; per-state set equality against an independent rules model",
         "Every state within d plies of ~100 roots (incl. colour mirrors) and every member of complete small-material classes is visited; at each one the generated move set must equal the model's legal moves exactly (no missing, illegal or duplicate move) and is_in_check must agree. Exhaustive within the reported state count; the right level because the property is a per-position equality that perft counts cannot see.",
         "Trusts the reference rules model (validated every run against published perft values) and covers only the explored neighbourhoods/classes, not all 10^44 positions.", "3/C01"),
 "C02": (True, "model_checking", "same explored graph, per-transition successor equality against the rules model, per-state board-consistency invariant, closures (fixpoints) of small material for unbounded histories",
         "Every transition of the explored graphs is executed by the real make_move and compared field by field (raw bitboards, side, rights, en-passant target) with the model successor; consistency invariant on every state; K+R v k and K+P v k explored to fixpoint so histories of any length inside them are covered.",
         "Trusts the rules model; closures that hit their state cap are reported as capped.", "3/C02"),
 "C03": (True, "model_checking", "exhaustive enumeration of command histories (ucinewgame? position go){1..L} on the real binary under a deterministic node clock, plus a budget sweep movetime 0..T; each go's answer judged against an independent rules model",
         "All histories of one or two (thorough: three, reduced alphabet) position+go steps over 9 positions (incl. mated, stalemated, single-reply and quiescence-explosion positions) x 10 go parameter sets (depth, movetime 0/1/37/500, clocks at/below the 5 s reserve, with increments), with and without ucinewgame in between, are run on a fresh process each; every budget 0..T is swept on 6 positions on a fresh process, after a completed search and after an interrupted one. Each go must be answered by exactly one bestmove, legal in the position last set, 0000 iff no legal move.",
         "Virtual time (node clock hook) replaces the wall clock so budgets are node counts; the explosion position with a depth-only go is outside the property.", "3/C03"),
 "C04": (True, "model_checking", "exhaustive enumeration of position-command histories through the real command handler (every legal move path up to depth d from 13 starts; every reachable grid counter pair for every state near the roots; ordered command pairs; prefixes of long games), board read back via hook and compared with the rules model",
         "Every legal move path of length <= 2-3 (thorough 3-4) from 13 starts chosen so that castling, promotions, under-promotions, en passant and non-pawn moves onto a just-skipped square all occur, each as one `position ... moves ...` command; every state within 1-2 plies of ~100 roots as a FEN with every counter pair of a 10x9 grid (up to halfmove 150, fullmove 5949) that a real game can reach; every ordered pair over a pool of commands on a fresh engine; every prefix of seeded long games. The engine's raw bitboards, side, rights and en-passant target must equal the model's.",
         "Trusts the rules model's FEN/UCI reading; malformed input is outside the property and never sent.", "3/C04"),
 "C08": (True, "model_checking", "complete small-material classes and root neighbourhoods classified by the rules model (mate-in-one set, moves allowing mate in one); every qualifying state searched on a fresh Searcher at depth 1..4 / 2..3",
         "Every position of K+Q v k, K+R v k (quick: lone king in the a1-d1-d4 triangle; thorough: all), K+P v k with the pawn on the 6th/7th, lone king v k+q+q (every move loses: the defensive half), thorough also K+R+R v k, K+Q v k+r and lone king v k+q+r, every state within 1-2 plies of ~100 special roots and of 23 tactical roots (the repository's mate puzzles and more, with colour mirrors) is classified by the model; each state with a mate in one is searched at depth 1,2,3,4 and must answer with a mating move; each state with a mix of safe/unsafe moves is searched at depth 2,3 and must not answer with a move that allows mate in one.",
         "Trusts the rules model for mate detection; bounded position space.", "3/C08"),
 "C09": (True, "model_checking", "every legal history over a shuffle alphabet up to length L through the real position handler, then the real depth-1 search with the repetition decision traced at ply 1 and compared with occurrence counts in the rules model; depth-1 value vs reference; ordered pairs of position commands",
         "From 4 starts (start position; K+R v k with a castling right; en-passant capture available; black to move with rights on both sides) every legal sequence over 10-11 reversible/irreversible moves up to length 7-8 (thorough 9-10) is sent as ucinewgame + position ... moves ...; the draw decision the real negamax takes for every root successor must equal 'occurred at least twice before in this game'; the depth-1 score and move must equal max(0 for third occurrences, -quiescence otherwise); command pairs check that an earlier position command's history does not count.",
         "Candidates on which the strict and the FIDE notion of 'same position' (en-passant target capturable or not) disagree are not judged.", "3/C09"),
 "C13": (True, "model_checking", "exhaustive enumeration of command histories (<= L units) on the real binary, each under K seeded Zobrist key sets and one unseeded run; outputs compared across runs and across the ucinewgame suffix join",
         "All 6174 (thorough 111150) histories over 18 units {ucinewgame, bare go, 4 positions x go depth 1..4} are run on a fresh process per key set; the output with time/nps removed must be identical for all key sets, and for every history alpha.ucinewgame.beta the output of beta must equal that of beta alone on a fresh process. Four deep searches (10^5..10^6 table entries: start position depth 7, two middlegames, a rook ending depth 9; thorough one ply deeper) run as [X], [X,X], [X,ucinewgame,X] under 5 (8) seeded key sets + unseeded. A difference between seeded key sets is replayable; one that only the unseeded run shows is reported without a replay.",
         "Key sets and the HashMap RandomState are instantiated (2-4 seeds + unseeded), not enumerated.", "3/C13"),
 "C16": (True, "model_checking", "exhaustive enumeration of input streams (<= L lines over a 13-symbol protocol alphabet, with/without final newline) on the real binary (hooks off and on); stdout, exit status and termination vs a reference state machine",
         "Every line sequence up to length 3 over the full alphabet (both binaries, with and without a final newline) and up to length 4 over the 9-symbol core alphabet (thorough: 4 and 5) is fed to a fresh process whose stdin is then closed; the output must parse exactly as the reference prescribes (id lines + uciok per uci, readyok per isready, info* + one legal bestmove per go, nothing else, nothing after quit), exit status 0, exit within the horizon.",
         "Termination is decided with a 6 s horizon after end of input.", "3/C16"),
 "C05": (True, "model_checking", "memoised unpruned minimax over the explored state graph (subject's own move generator, subject's own full-window quiescence at the leaves) vs find_best_move on a fresh Searcher for every state of depth-limited neighbourhoods, depth 1..3; instrumented fixed-depth searches to depth 4..5",
         "For every state of the listed neighbourhoods (start position to 2 plies, 14 endings to 1-3 plies, middlegame roots, 23 tactical roots with colour mirrors and every state one ply from them) a fresh Searcher is searched to depth 1, 2, 3 and compared with the reference value V(s,k) computed without pruning, ordering or caching: exact equality inside the window, won/lost beyond it, and the returned move must attain the value. Depth 4..5 single fixed-depth searches are compared only when the TT-cutoff counter shows no deeper entry was reused.",
         "Leaf values are the subject's own quiescence values by the property's definition; states whose quiescence exceeds the node cap are excluded and counted.", "3/C05"),
 "C06": (True, "fault_enumeration", "crash-point enumeration under the node clock: deadline at every node 0..T of a search (and pairs of deadlines), then a completed search on the same Searcher vs the reference value; repetition-stack length before/after",
         "For 12 positions x depth 2,3 the deadline is placed at every node count of the uninterrupted search (T up to 6000 quick / 40000 thorough), on a fresh Searcher each time; the completed search that follows (same depth; also one ply deeper when the table served nothing from a deeper entry) must report the reference minimax value and a move that attains it, and the game-history stack must have its original length; with a recorded game history in place the answers of the real repetition query for the root and its successors must be unchanged by the interrupted search. Small searches also get every pair of interruptions.",
         "Equal maximum depth <= 3 for the interrupted and the completed search, so no deeper entry can serve the final iteration (DESIGN.md C06).", "3/C06"),
 "C07": (True, "fault_enumeration", "same crash-point sweep: nodes visited beyond the deadline node <= 2048, including positions whose quiescence search explodes; watchdog turns a search that never answers into a verdict",
         "Under the node clock the deadline falls at an exact node; the number of nodes visited beyond it is a deterministic count. Enumerated for every deadline of the C06 sweeps and for deadlines 0..600 (quick) / 0..3000 (thorough) at depth 1 and 2 on three valid positions whose quiescence tree has > 10^6 nodes.",
         "Bounds work (nodes), not wall time; K = 2048 nodes is this harness's reading of 'small bounded amount'.", "3/C07"),
 "C10": (True, "exploration", "complete enumeration: 64 squares x every subset of each piece's rays x off-ray fillings; all leaper squares; all 64x63 ordered square pairs",
         "The finite space that determines the tables is enumerated completely (every on-ray blocker subset, edges included, with four fillings of the remaining squares; all pairs for the segment/line tables) and compared with a ray walk / geometry. exhaustive=true.",
         "Off-ray occupancy is represented by four fillings rather than all 2^50 (the code masks occupancy with the ray mask before indexing; a change that drops the mask is caught by the 'full' and checkerboard fillings).", "3/C10"),
 "C11": (True, "model_checking", "explored position graph: path independence on every merge, counter independence and every single-component perturbation per state, injectivity on a complete class, for K seeded key sets + one unseeded",
         "The hash stored when a state is first reached is compared with the hash of every later board that merges into it (other move orders, other roots with different move counters); every state is re-read from FENs with six counter pairs; ~800 single-component perturbations per perturbed state must all change the hash; all consistent (side, castling rights, en-passant target) decorations of a placement must hash pairwise differently (two-component differences); distinct keys of class F1 must have distinct hashes. Key tables are built per worker thread, so the table type need not be shareable.",
         "Key sets are instantiated (3 quick / 8 thorough seeded + 1 unseeded), not enumerated.", "3/C11"),
 "C12": (True, "exploration", "complete grid of clock values x all orders of the token pairs x presence subsets x side to move through the real go parser with the search in dry-run",
         "1.3 million grid go lines plus a dense sweep of every own clock value 0..12000 ms (thorough 0..200000) x 9 increments x 3 opponent clocks x 4 token orders, plus all 9^4 combinations of the four fields over the edges of the u64 range (0, 1, 2^32, 2^63, 2^64-1 and neighbours), through the real handle_go_command/calculate_move_time; a panic (the harness is built with overflow checks) is a violation; the budget recorded at the top of find_best_move must be identical for fixed (side, own time, own increment) across every opponent value, token order, presence subset and depth prefix, must not exceed the mover's time and must be strictly below it when time remains.",
         "Values between grid points are assumed to behave like their neighbours (grid is dense around the 5 s reserve and at 0/1/2 ms).", "3/C12"),
 "C14": (True, "model_checking", "explored position graph + complete class F1: purity (dirty evaluator vs fresh), side-swap negation, colour-mirror invariance, bound; all call sequences of length 3 over 24 positions on one evaluator",
         "Every explored state is evaluated on a fresh evaluator, on evaluators that just evaluated very different positions, and on a long-lived per-thread evaluator; the side-swapped twin must score the exact negative and the mirrored twin the same; |score| <= 20000 including 18-queen roots; 13824 three-call sequences on one evaluator equal the fresh results.",
         "Bounded position space; the bound 20000 is this harness's reading of 'well inside the window'.", "3/C14"),
 "C15": (True, "model_checking", "every store sequence up to length L over colliding keys on a fresh real table vs a map model; model state graph (1000 states) to fixpoint with every transition replayed on the real table",
         "All 27^5 (quick) / 27^6 (thorough) store sequences over three keys that agree in their low 40 / low 63 bits, depths 0..2 and three payloads (Exact, Upper, Lower), each on its own fresh TranspositionTable with all four retrieves compared after every step; the abstract state graph is closed (fixpoint) and every one of its transitions is validated on the implementation.",
         "Keys/depths/payloads outside the alphabet are assumed to behave alike.", "3/C15"),
 "C17": (True, "model_checking", "explored graph: generate_quiescence_moves vs the model's tactical set on every not-in-check state; traced move lists of real quiescence nodes",
         "On every explored not-in-check state the quiescence move set must equal {legal captures incl. e.p., promotions, checks incl. discovered}; the move list actually used by real quiescence nodes (trace hook) is checked in both the in-check and not-in-check case.",
         "Trusts the rules model; bounded position space.", "3/C17"),
}
UNDER_CONSTRUCTION = "check not built yet in this round (planned in DESIGN.md section 3); listed here until its quick command exists"

props = [json.loads(l) for l in open(os.path.join(V, "properties.jsonl"))]
hooks_commits = subprocess.run(["git", "-C", "/repo", "log", "--format=%h %s", "--grep", "verif hook"], capture_output=True, text=True).stdout.strip().splitlines()
checks, na = [], []
for p in props:
    pid = p["id"]
    row = T.get(pid)
    if row and row[0]:
        _, cat, tech, text, note, ref = row
        checks.append({
            "property_id": pid,
            "quick_cmd": "./check %s --tier quick" % pid,
            "thorough_cmd": "./check %s --tier thorough" % pid,
            "evidence_file": "/verif/evidence/%s.json" % pid,
            "replay_cmd_template": "./check replay {path}",
            "engine": "flounder-mc",
            "level_claimed": {"category": cat, "text": text, "design_ref": "DESIGN.md section " + ref},
            "level_note": note,
            "technique": tech,
        })
    else:
        na.append({"property_id": pid, "reason": (row[4] if row else UNDER_CONSTRUCTION)})
m = {
 "version": 1,
 "setup_cmd": "./check build",
 "hooks": {
   "guard": "--cfg flounder_verif",
   "enable": "harness: mc/build.rs emits cargo:rustc-cfg=flounder_verif while compiling /repo/src/*.rs by #[path]; engine binary: RUSTFLAGS=\"--cfg flounder_verif\" cargo build --release --offline --manifest-path /repo/Cargo.toml --target-dir /verif/.build/engine-hooks",
   "baseline_off_cmd": "cd /repo && cargo test --workspace --no-fail-fast --offline",
   "source_commits": [c.split()[0] for c in hooks_commits],
   "add_only": True,
 },
 "engines": [
   {"name": "flounder-mc", "path": "/verif/mc", "serves_properties": [c["property_id"] for c in checks],
    "kind_free_text": "Rust harness that compiles the repository's modules by path; own explicit-state explorer (layered BFS with canonical-key visited set), independent rules model, operation-sequence / crash-point / command-history enumerators; every explored transition is executed on the real implementation"},
 ],
 "checks": checks,
 "not_applicable": na,
 "notes": "Runner: ./check <ID> --tier quick|thorough; exit 0 held / 1 VIOLATION / 2 machinery error. Known findings: /verif/KNOWN_FINDINGS.txt. FLOUNDER_REPO=<tree> runs the same checks against another source tree (used for seeded changes).",
}
json.dump(m, open(os.path.join(V, "MANIFEST.json"), "w"), indent=1)
print("claimed:", [c["property_id"] for c in checks], "n/a:", [n["property_id"] for n in na])
