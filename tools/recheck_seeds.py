#!/usr/bin/env python3
"""Re-runs the checks against every stored seeded change (regression run for the machinery).

usage: recheck_seeds.py [--checks C04,C13] [ID ...]      (default: every /verif/seeded/*, each with the checks recorded for it)

For each seeded change: a scratch worktree of /repo at HEAD gets the stored patch, the check(s)
recorded in its meta.json are run against it through FLOUNDER_REPO, and the outcome is appended to
meta.json under "rechecks" (verif commit, repo head, detected per check). The confirmation of the
change itself (suite, demonstration) is not repeated here; tools/verify_seed.py does that.
Nothing is applied to /repo.
"""
import glob, hashlib, json, os, re, subprocess, sys, time

VERIF = os.path.dirname(os.path.dirname(os.path.abspath(__file__)))
WT = "/tmp/seed_recheck_%d" % os.getpid()


def sh(cmd, cwd=None, env=None, timeout=7200):
    try:
        r = subprocess.run(cmd, shell=True, cwd=cwd, env=env, stdout=subprocess.PIPE, stderr=subprocess.STDOUT, text=True, timeout=timeout)
        return r.returncode, r.stdout
    except subprocess.TimeoutExpired:
        return 124, "TIMEOUT"


def main():
    args = sys.argv[1:]
    force = None
    if "--checks" in args:
        i = args.index("--checks")
        force = args[i + 1].split(",")
        del args[i:i + 2]
    ids = args or sorted(os.path.basename(os.path.dirname(p)) for p in glob.glob(VERIF + "/seeded/*/meta.json"))
    head = subprocess.check_output("git -C /repo rev-parse HEAD", shell=True, text=True).strip()
    vc = subprocess.check_output("git -C %s rev-parse --short HEAD" % VERIF, shell=True, text=True).strip()
    if not os.path.isdir(WT):
        sh("git -C /repo worktree prune; git -C /repo worktree add -q --detach %s HEAD" % WT)
    env = dict(os.environ, CARGO_NET_OFFLINE="true", FLOUNDER_REPO=WT)
    env.pop("RUSTFLAGS", None)
    bad = []
    for sid in ids:
        d = "%s/seeded/%s" % (VERIF, sid)
        meta = json.load(open(d + "/meta.json"))
        sh("git reset -q --hard ; git clean -fdq ; git checkout -q --detach %s" % head, cwd=WT)
        rc, out = sh("git apply %s/patch.diff" % d, cwd=WT)
        if rc != 0:
            rc, out = sh("git reset -q --hard ; git apply -3 %s/patch.diff && git reset -q" % d, cwd=WT)
        if rc != 0:
            # written against an earlier HEAD: apply it there, then replay the commits made since (hooks) on top
            base = meta.get("confirmation", {}).get("repo_head")
            if base:
                rc, out = sh("git reset -q --hard ; git checkout -q --detach %s && git apply %s/patch.diff && git -c user.name=x -c user.email=x@x commit -qam seeded && git -c user.name=x -c user.email=x@x cherry-pick %s..%s >/dev/null 2>&1 && git reset -q --soft %s && git reset -q" % (base, d, base, head, head), cwd=WT)
                if rc != 0:
                    sh("git cherry-pick --abort ; git reset -q --hard ; git checkout -q --detach %s" % head, cwd=WT)
        if rc != 0:
            print("%s: PATCH DOES NOT APPLY at %s" % (sid, head[:7]))
            bad.append(sid)
            continue
        prev = meta.get("confirmation", {}).get("checks_on_patched_tree", {})
        checks = force or [c for c, v in prev.items() if v.get("detected")] or list(prev) or [meta["breaks_property"]]
        res = {}
        for c in checks:
            t = time.time()
            rc, out = sh("./check %s --tier quick 2>&1 | grep -E 'VIOLATION|MACHINERY|held|VIOLATED' | head -4" % c, cwd=VERIF, env=env)
            res[c] = {"detected": "VIOLATION property=" in out, "wall_s": round(time.time() - t, 1), "output": re.sub(r"replay=\S*/replays/", "replay=replays/", out)[:400]}
            sh("rm -f %s/replays/*.json" % VERIF)
        meta.setdefault("rechecks", []).append({"verif_commit": vc, "repo_head": head, "checks": res})
        json.dump(meta, open(d + "/meta.json", "w"), indent=1)
        ok = any(v["detected"] for v in res.values())
        print("%s: %s" % (sid, ", ".join("%s %s (%.0fs)" % (c, "detects" if v["detected"] else "SILENT", v["wall_s"]) for c, v in res.items())), flush=True)
        if not ok:
            bad.append(sid)
    sh("git -C /repo worktree remove --force %s" % WT)
    tag = hashlib.sha1(WT.encode()).hexdigest()[:8]
    sh("rm -rf %s/.build/*-%s" % (VERIF, tag))
    print("rechecked %d, not detected: %s" % (len(ids), bad))


if __name__ == "__main__":
    main()
