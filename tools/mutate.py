#!/usr/bin/env python3
"""Operator-level mutation analysis of the checks (an evaluation of the machinery, not a check).

usage: mutate.py [--files a.rs,b.rs] [--every K] [--offset O] [--out FILE] [--scratch DIR] [--suite]

Copies /repo to a scratch tree, and for every K-th mutation site of the chosen source files
(outside `#[cfg(test)]` modules and `#[cfg(flounder_verif)]` items) applies ONE small change
(relational / logical / arithmetic operator swap, off-by-one on a literal, negation dropped,
true<->false, min<->max), rebuilds the harness against the scratch tree and runs the quick checks
mapped to that file through FLOUNDER_REPO. Records for each mutant which checks reported a
violation, which stayed silent, and build failures. With --suite the repository's own tests are
also run on survivors (slow). Nothing is ever written to /repo.

The result file lists survivors for hand triage: equivalent mutants and mutants that change only
heuristics (move ordering, time allocation within the property) are expected among them.
"""
import json, os, re, shutil, subprocess, sys, time

VERIF = os.path.dirname(os.path.dirname(os.path.abspath(__file__)))

CHECKS = {
    "move_gen.rs": ["C01", "C17"],
    "board.rs": ["C02", "C01"],
    "bitboard.rs": ["C01", "C10"],
    "lookup.rs": ["C10", "C01"],
    "magic.rs": ["C10"],
    "zobrist.rs": ["C11"],
    "transposition.rs": ["C15"],
    "eval.rs": ["C14"],
    "repetition.rs": ["C09"],
    "timer.rs": ["C07", "C06"],
    "uci.rs": ["C12", "C04", "C16", "C03"],
    "search.rs": ["C05", "C08", "C06", "C07", "C09"],
    "fen.rs": ["C04"],
    "moves.rs": ["C04", "C01"],
    "square.rs": ["C04"],
    "pieces.rs": ["C01", "C14"],
}

OPS = [
    (r"<=", "<"), (r">=", ">"), (r" < ", " <= "), (r" > ", " >= "),
    (r"==", "!="), (r"!=", "=="), (r"&&", "||"), (r"\|\|", "&&"),
    (r"(?<![+\w]) \+ (?!=)", " - "), (r" - (?!=)", " + "), (r"<<", ">>"), (r">>", "<<"),
    (r"\btrue\b", "false"), (r"\bfalse\b", "true"), (r"\.min\(", ".max("), (r"\.max\(", ".min("),
    (r"\bmin\(", "max("), (r"\bmax\(", "min("),
    (r"!(?=[a-z_(])(?!=)", ""),
    (r"(?<![\w.])(\d+)(?![\w.])", None),  # literal n -> n+1
]


def code_lines(path):
    """Indices of lines that are production code."""
    lines = open(path).read().split("\n")
    ok = []
    skip_depth = None
    depth = 0
    pending_cfg = False
    for i, l in enumerate(lines):
        st = l.strip()
        if st.startswith("#[cfg(test)]") or st.startswith("#[cfg(flounder_verif)]"):
            pending_cfg = True
            continue
        opens, closes = l.count("{"), l.count("}")
        if pending_cfg:
            # the item that follows (up to the end of its block or the statement) is skipped
            if skip_depth is None:
                skip_depth = depth
            depth += opens - closes
            if depth <= skip_depth and (closes > 0 or st.endswith(";") or st.endswith(",")):
                pending_cfg = False
                skip_depth = None
            continue
        depth += opens - closes
        if not st or st.startswith("//") or st.startswith("#[") or st.startswith("use ") or st.startswith("pub use "):
            continue
        if "println!" in l or "print!" in l or "format!" in l or "panic!" in l or "expect(" in l:
            continue
        ok.append(i)
    return lines, ok


def sites(path):
    lines, ok = code_lines(path)
    out = []
    for i in ok:
        l = lines[i]
        code = l.split("//")[0]
        for pat, rep in OPS:
            for m in re.finditer(pat, code):
                if rep is None:
                    n = int(m.group(1))
                    if n > 4096:
                        continue
                    new = code[:m.start(1)] + str(n + 1) + code[m.end(1):]
                else:
                    new = code[:m.start()] + rep + code[m.end():]
                if new != code:
                    out.append((i, l, new + l[len(code):]))
    return lines, out


def sh(cmd, env=None, timeout=3600, cwd=None):
    try:
        r = subprocess.run(cmd, shell=True, env=env, cwd=cwd, stdout=subprocess.PIPE, stderr=subprocess.STDOUT, text=True, timeout=timeout)
        return r.returncode, r.stdout
    except subprocess.TimeoutExpired:
        return 124, "TIMEOUT"


def main():
    a = sys.argv[1:]
    def opt(name, default=None):
        return a[a.index(name) + 1] if name in a else default
    files = (opt("--files") or ",".join(CHECKS)).split(",")
    every = int(opt("--every", "7"))
    offset = int(opt("--offset", "0"))
    out = opt("--out", "/tmp/mutants.json")
    scratch = opt("--scratch", "/tmp/mut_repo")
    only_checks = opt("--checks")
    if os.path.exists(scratch):
        shutil.rmtree(scratch)
    sh("git -C /repo worktree prune; git -C /repo worktree add -q --detach %s HEAD" % scratch)
    env = dict(os.environ, CARGO_NET_OFFLINE="true", FLOUNDER_REPO=scratch, VERIF_WALL_LIMIT_S="900")
    env.pop("RUSTFLAGS", None)
    results = []
    t0 = time.time()
    for f in files:
        path = os.path.join(scratch, "src", f)
        orig = open(path).read()
        lines, ss = sites(path)
        chosen = ss[offset::every]
        print("%s: %d sites, %d mutants" % (f, len(ss), len(chosen)), flush=True)
        for (i, old, new) in chosen:
            ml = list(lines)
            ml[i] = new
            open(path, "w").write("\n".join(ml))
            rec = {"file": f, "line": i + 1, "old": old.strip(), "new": new.strip(), "checks": {}}
            checks = only_checks.split(",") if only_checks else CHECKS.get(f, [])
            killed = False
            for c in checks:
                rc, o = sh("./check %s --tier quick 2>&1 | grep -E 'VIOLATION|MACHINERY|held|VIOLATED' | head -3" % c, env=env, cwd=VERIF, timeout=1200)
                if "VIOLATION property=" in o:
                    rec["checks"][c] = "detected"
                    killed = True
                    break
                elif "MACHINERY" in o:
                    rec["checks"][c] = "machinery: " + o.strip()[:200]
                    if "does not build" in o or "harness does not build" in o:
                        killed = True  # not a compiling mutant
                        rec["not_compiling"] = True
                        break
                elif "held" in o:
                    rec["checks"][c] = "silent"
                else:
                    rec["checks"][c] = "?: " + o.strip()[:200]
            rec["survived"] = not killed
            if not killed and "--suite" in a:
                rc, o = sh("cargo test --offline 2>&1 | grep -E '^test result' | head -2", env=env, cwd=scratch, timeout=1800)
                rec["repo_suite"] = o.strip()[:120]
            sh("rm -f %s/replays/*.json" % VERIF)
            results.append(rec)
            print("%s:%d  %s  ->  %s   %s  (%.0fs)" % (f, i + 1, old.strip()[:70], new.strip()[:70], "SURVIVED" if rec["survived"] else ("no-build" if rec.get("not_compiling") else "killed by " + ",".join(k for k, v in rec["checks"].items() if v == "detected")), time.time() - t0), flush=True)
            json.dump(results, open(out, "w"), indent=1)
        open(path, "w").write(orig)
    tag = __import__("hashlib").sha1(scratch.encode()).hexdigest()[:8]
    sh("git -C /repo worktree remove --force %s; rm -rf %s/.build/*-%s %s/.build/*-%s-*" % (scratch, VERIF, tag, VERIF, tag))
    n = len(results)
    surv = [r for r in results if r["survived"]]
    print("mutants %d, killed %d, not compiling %d, survived %d" % (n, sum(1 for r in results if not r["survived"] and not r.get("not_compiling")), sum(1 for r in results if r.get("not_compiling")), len(surv)))


if __name__ == "__main__":
    main()
