#!/usr/bin/env python3
"""Confirms a seeded property-breaking change and records it under /verif/seeded/<id>-<n>/.

usage: verify_seed.py <PROP> <n> [--skip-suite] [--checks C01,C02,...]

For deliverables /tmp/seed_out/<PROP>/{patch<n>.diff, demo<n>.*, meta<n>.json} and the scratch
worktree /tmp/seed_<PROP> (a git worktree of /repo), this
  1. moves the worktree to /repo's HEAD, applies the patch, builds, runs the full test suite;
  2. runs the demonstration with the change (must fail) and without it (must pass);
  3. runs the listed ./check commands (default: the property's own) against the patched
     worktree via FLOUNDER_REPO and records which of them report a violation;
  4. writes patch.diff, the demonstration and meta.json to /verif/seeded/<PROP>-<n>/.
Nothing is ever applied to /repo itself by this script.
"""
import json, os, re, shutil, subprocess, sys, time

VERIF = os.path.dirname(os.path.dirname(os.path.abspath(__file__)))

def sh(cmd, cwd=None, env=None, timeout=3600):
    r = subprocess.run(cmd, shell=True, cwd=cwd, env=env, stdout=subprocess.PIPE, stderr=subprocess.STDOUT, text=True, timeout=timeout)
    return r.returncode, r.stdout

def main():
    prop, n = sys.argv[1], sys.argv[2]
    skip_suite = "--skip-suite" in sys.argv
    checks = [prop]
    if "--checks" in sys.argv:
        checks = sys.argv[sys.argv.index("--checks") + 1].split(",")
    src = "/tmp/seed_out/%s" % prop
    wt = "/tmp/seed_%s" % prop
    patch = "%s/patch%s.diff" % (src, n)
    meta_in = json.load(open("%s/meta%s.json" % (src, n))) if os.path.exists("%s/meta%s.json" % (src, n)) else {}
    env = dict(os.environ, CARGO_NET_OFFLINE="true")
    head = subprocess.check_output("git -C /repo rev-parse HEAD", shell=True, text=True).strip()
    sh("git checkout -q -- . && git clean -fdq -e target && git checkout -q --detach %s" % head, cwd=wt)
    log = {"property": prop, "index": n, "repo_head": head, "ran": []}

    rc, out = sh("git apply --check %s && git apply %s" % (patch, patch), cwd=wt)
    log["patch_applies"] = rc == 0
    if rc != 0:
        print("PATCH DOES NOT APPLY\n" + out); json.dump(log, sys.stdout, indent=1); return 1
    rc, out = sh("cargo build --offline 2>&1 | tail -3", cwd=wt, env=env)
    log["compiles"] = "Finished" in out
    log["ran"].append("cargo build --offline (with change)")
    if not skip_suite:
        t = time.time()
        rc, out = sh("cargo test --workspace --no-fail-fast --offline 2>&1 | grep -E '^test result|FAILED|failed' | head -20", cwd=wt, env=env)
        m = re.search(r"test result: (\w+)\. (\d+) passed; (\d+) failed", out)
        log["suite_with_change"] = m.group(0) if m else out[-500:]
        log["suite_passes_with_change"] = bool(m and m.group(1) == "ok" and m.group(2) == "91")
        log["ran"].append("cargo test --workspace --no-fail-fast --offline (with change, %.0fs)" % (time.time() - t))

    # demonstration
    demo_diff = "%s/demo%s.diff" % (src, n)
    demo_script = None
    for ext in ("sh", "py"):
        p = "%s/demo%s.%s" % (src, n, ext)
        if os.path.exists(p):
            demo_script = p
    def run_demo():
        if os.path.exists(demo_diff):
            rc, out = sh("git apply %s" % demo_diff, cwd=wt)
            if rc != 0:
                return None, "demo diff does not apply: " + out
            flt = meta_in.get("demo_cmd", "").strip().split()[-1] if meta_in.get("demo_cmd") else ""
            rc, out = sh("cargo test --offline %s 2>&1 | tail -30" % flt, cwd=wt, env=env)
            sh("git apply -R %s" % demo_diff, cwd=wt)
            m = re.search(r"test result: (\w+)\. (\d+) passed; (\d+) failed", out)
            ok = bool(m and m.group(1) == "ok" and int(m.group(2)) > 0)
            return ok, (m.group(0) if m else out[-400:])
        if demo_script:
            sh("cargo build --offline --release 2>&1 | tail -1; cargo build --offline 2>&1 | tail -1", cwd=wt, env=env)
            runner = "python3" if demo_script.endswith(".py") else "bash"
            rc, out = sh("%s %s" % (runner, demo_script), cwd=wt, env=env, timeout=900)
            return rc == 0, out[-400:]
        return None, "no demonstration found"
    ok_with, txt_with = run_demo()
    log["demo_with_change"] = {"passes": ok_with, "output": txt_with}
    # checks against the patched tree
    results = {}
    for c in checks:
        t = time.time()
        rc, out = sh("FLOUNDER_REPO=%s ./check %s --tier quick 2>&1 | grep -E 'VIOLATION|KNOWN-FINDING|MACHINERY|held|VIOLATED' | head -8" % (wt, c), cwd=VERIF, env=env, timeout=3600)
        results[c] = {"detected": "VIOLATION property=" in out, "wall_s": round(time.time() - t, 1), "output": out[:1500]}
    log["checks_on_patched_tree"] = results
    # without the change
    sh("git apply -R %s" % patch, cwd=wt)
    ok_without, txt_without = run_demo()
    log["demo_without_change"] = {"passes": ok_without, "output": txt_without}
    sh("git checkout -q -- . && git clean -fdq -e target", cwd=wt)

    confirmed = log.get("compiles") and (skip_suite or log.get("suite_passes_with_change")) and ok_with is False and ok_without is True
    log["confirmed"] = bool(confirmed)
    dest = "/verif/seeded/%s-%s" % (prop, n)
    os.makedirs(dest, exist_ok=True)
    shutil.copy(patch, dest + "/patch.diff")
    if os.path.exists(demo_diff):
        shutil.copy(demo_diff, dest + "/demo.diff")
    if demo_script:
        shutil.copy(demo_script, dest + "/" + os.path.basename(demo_script).replace("demo%s" % n, "demo"))
    meta = {
        "breaks_property": prop,
        "summary": meta_in.get("summary"),
        "needs_to_manifest": meta_in.get("needs_to_manifest"),
        "demo_cmd_as_given_by_author": meta_in.get("demo_cmd"),
        "files_touched": meta_in.get("files_touched"),
        "origin": "independent sub-agent given only the property text and a scratch worktree",
        "confirmation": log,
    }
    json.dump(meta, open(dest + "/meta.json", "w"), indent=1)
    print(json.dumps({k: log[k] for k in log if k != "ran"}, indent=1)[:3000])
    return 0

if __name__ == "__main__":
    sys.exit(main())
