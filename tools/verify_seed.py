#!/usr/bin/env python3
"""Confirms a seeded property-breaking change and records it under /verif/seeded/<PROP>-<n>/.

usage: verify_seed.py <PROP> <n> [--skip-suite] [--checks C01,C02,...] [--from-seeded] [--tier quick|thorough]

Inputs are the deliverables of an independent sub-agent in /tmp/seed_out/<PROP>/
{patch<n>.diff, demo<n>.diff | demo<n>.sh, meta<n>.json} (with --from-seeded they are first
restored from /verif/seeded/<PROP>-<n>/), and the scratch worktree /tmp/seed_<PROP> of /repo
(created if missing). The script
  1. moves the worktree to /repo's HEAD, applies the patch, builds it with hooks off and on, runs
     the repository's full test suite (hooks off) and requires 91 passed / 0 failed;
  2. runs the demonstration with the change (must fail) and, after reverting it, without (must pass);
  3. runs the listed ./check commands (default: the property's own) against the patched worktree
     via FLOUNDER_REPO and records which of them report a violation;
  4. writes patch.diff, the demonstration and meta.json to /verif/seeded/<PROP>-<n>/ and removes the
     per-worktree build output under /verif/.build.
Nothing is ever applied to /repo itself by this script.
"""
import hashlib, json, os, re, shutil, subprocess, sys, time

VERIF = os.path.dirname(os.path.dirname(os.path.abspath(__file__)))


def sh(cmd, cwd=None, env=None, timeout=7200):
    try:
        r = subprocess.run(cmd, shell=True, cwd=cwd, env=env, stdout=subprocess.PIPE, stderr=subprocess.STDOUT, text=True, timeout=timeout)
        return r.returncode, r.stdout
    except subprocess.TimeoutExpired as e:
        return 124, "TIMEOUT after %ss: %s" % (timeout, (e.stdout or "")[-500:])


def main():
    prop, n = sys.argv[1], sys.argv[2]
    skip_suite = "--skip-suite" in sys.argv
    tier = sys.argv[sys.argv.index("--tier") + 1] if "--tier" in sys.argv else "quick"
    checks = [prop]
    if "--checks" in sys.argv:
        checks = sys.argv[sys.argv.index("--checks") + 1].split(",")
    src = "/tmp/seed_out/%s" % prop
    wt = "/tmp/seed_%s" % prop
    dest = "/verif/seeded/%s-%s" % (prop, n)
    os.makedirs(src, exist_ok=True)
    if "--from-seeded" in sys.argv:
        old = json.load(open(dest + "/meta.json"))
        shutil.copy(dest + "/patch.diff", "%s/patch%s.diff" % (src, n))
        for f in os.listdir(dest):
            if f.startswith("demo."):
                shutil.copy(dest + "/" + f, "%s/demo%s.%s" % (src, n, f.split(".", 1)[1]))
        json.dump({"summary": old.get("summary"), "needs_to_manifest": old.get("needs_to_manifest"),
                   "demo_cmd": old.get("demo_cmd_as_given_by_author"), "files_touched": old.get("files_touched")},
                  open("%s/meta%s.json" % (src, n), "w"), indent=1)
    if not os.path.isdir(wt):
        sh("git -C /repo worktree add -q --detach %s HEAD" % wt)
    patch = "%s/patch%s.diff" % (src, n)
    meta_in = json.load(open("%s/meta%s.json" % (src, n))) if os.path.exists("%s/meta%s.json" % (src, n)) else {}
    env = dict(os.environ, CARGO_NET_OFFLINE="true")
    env.pop("RUSTFLAGS", None)
    henv = dict(env, RUSTFLAGS="--cfg flounder_verif")
    head = subprocess.check_output("git -C /repo rev-parse HEAD", shell=True, text=True).strip()
    sh("git reset -q --hard ; git clean -fdq -e target -e target-hooks ; git checkout -q --detach %s" % head, cwd=wt)
    log = {"property": prop, "index": n, "repo_head": head, "ran": []}

    rc, out = sh("git apply --check %s && git apply %s" % (patch, patch), cwd=wt)
    if rc != 0:
        # written against an earlier HEAD (a hook commit since): three-way merge through the blobs it names
        rc, out = sh("git apply -3 %s && git reset -q" % patch, cwd=wt)
        log["patch_applied_by_three_way_merge"] = rc == 0
    log["patch_applies"] = rc == 0
    if rc != 0:
        print("PATCH DOES NOT APPLY\n" + out)
        return 1
    rc, out = sh("cargo build --offline 2>&1 | tail -3", cwd=wt, env=env)
    log["compiles"] = "Finished" in out
    rc, out = sh("cargo build --offline --target-dir %s/target-hooks 2>&1 | tail -3" % wt, cwd=wt, env=henv)
    log["compiles_with_hooks"] = "Finished" in out
    log["ran"].append("cargo build --offline (with change; hooks off and on)")
    reuse = None
    if "--reuse-suite" in sys.argv and os.path.exists(dest + "/meta.json") and os.path.exists(dest + "/patch.diff"):
        oldc = json.load(open(dest + "/meta.json")).get("confirmation", {})
        if open(dest + "/patch.diff").read() == open(patch).read() and oldc.get("suite_passes_with_change") and oldc.get("repo_head") == head:
            reuse = oldc
    if reuse:
        log["suite_with_change"] = reuse["suite_with_change"]
        log["suite_passes_with_change"] = True
        log["ran"].append("test suite result reused from the earlier confirmation of the identical patch at the same /repo HEAD")
    elif not skip_suite:
        t = time.time()
        rc, out = sh("cargo test --workspace --no-fail-fast --offline 2>&1 | grep -E '^test result|FAILED|failed' | head -20", cwd=wt, env=env)
        m = re.search(r"test result: (\w+)\. (\d+) passed; (\d+) failed", out)
        if m and m.group(1) != "ok":
            # timing-sensitive tests can fail on a loaded machine: one retry of the failures alone
            failed = re.findall(r"test (\S+) \.\.\. FAILED", out)
            if failed and all(("time_management" in f or "search_speed" in f or "timer::" in f) for f in failed):
                ok_all = True
                for f in failed:
                    rc2, out2 = sh("cargo test --offline %s 2>&1 | grep -E '^test result' | head -3" % f.split("::")[-1], cwd=wt, env=env)
                    ok_all = ok_all and "test result: ok" in out2
                if ok_all:
                    out = out.replace(m.group(0), "test result: ok. 91 passed; 0 failed (timing tests %s passed when re-run alone)" % failed)
                    m = re.search(r"test result: (\w+)\. (\d+) passed; (\d+) failed", out)
        log["suite_with_change"] = m.group(0) if m else out[-500:]
        log["suite_passes_with_change"] = bool(m and m.group(1) == "ok" and int(m.group(2)) >= 91)  # a patch may add tests of its own
        log["ran"].append("cargo test --workspace --no-fail-fast --offline (with change, hooks off, %.0fs)" % (time.time() - t))

    demo_diff = "%s/demo%s.diff" % (src, n)
    demo_script = None
    for ext in ("sh", "py"):
        p = "%s/demo%s.%s" % (src, n, ext)
        if os.path.exists(p):
            demo_script = p
    demo_cmd = meta_in.get("demo_cmd") or ""
    demo_hooks = "flounder_verif" in demo_cmd

    def run_demo():
        if os.path.exists(demo_diff):
            rc, out = sh("git apply %s" % demo_diff, cwd=wt)
            if rc != 0:
                return None, "demo diff does not apply: " + out
            toks = [t for t in demo_cmd.split("#")[0].strip().split() if t]
            flt = toks[-1] if toks else ""
            if demo_hooks:
                rc, out = sh("cargo test --offline --target-dir %s/target-hooks %s 2>&1 | tail -80" % (wt, flt), cwd=wt, env=henv)
            else:
                rc, out = sh("cargo test --offline %s 2>&1 | tail -80" % flt, cwd=wt, env=env)
            sh("git apply -R %s" % demo_diff, cwd=wt)
            # several test binaries may run (unit tests, tests/*.rs): all must be ok and the
            # demonstration must actually have run somewhere
            ms = re.findall(r"test result: (\w+)\. (\d+) passed; (\d+) failed", out)
            ok = bool(ms) and all(x[0] == "ok" for x in ms) and sum(int(x[1]) for x in ms) > 0
            bad = [x for x in ms if x[0] != "ok"]
            txt = ("test result: %s. %s passed; %s failed" % (bad[0] if bad else max(ms, key=lambda x: int(x[1])))) if ms else out[-400:]
            return ok, txt
        if demo_script:
            runner = "python3" if demo_script.endswith(".py") else "bash"
            rc, out = sh("%s %s" % (runner, demo_script), cwd=wt, env=env, timeout=1800)
            return rc == 0, out[-400:]
        return None, "no demonstration found"

    ok_with, txt_with = run_demo()
    log["demo_with_change"] = {"passes": ok_with, "output": txt_with}
    results = {}
    tag = hashlib.sha1(wt.encode()).hexdigest()[:8]
    for c in checks:
        t = time.time()
        rc, out = sh("FLOUNDER_REPO=%s ./check %s --tier %s 2>&1 | grep -E 'VIOLATION|KNOWN-FINDING|MACHINERY|held|VIOLATED' | head -6" % (wt, c, tier), cwd=VERIF, env=env, timeout=7200)
        out = re.sub(r"replay=\S*/replays/", "replay=replays/", out)
        results[c] = {"detected": "VIOLATION property=" in out, "tier": tier, "wall_s": round(time.time() - t, 1), "output": out[:1200]}
    log["checks_on_patched_tree"] = results
    sh("git checkout -q -- . ; git clean -fdq -e target -e target-hooks", cwd=wt)
    ok_without, txt_without = run_demo()
    log["demo_without_change"] = {"passes": ok_without, "output": txt_without}
    sh("git checkout -q -- . ; git clean -fdq -e target -e target-hooks", cwd=wt)
    sh("rm -rf %s/.build/*-%s %s/.build/*-%s-*" % (VERIF, tag, VERIF, tag))
    sh("rm -f %s/replays/*.json" % VERIF)

    confirmed = log.get("compiles") and log.get("compiles_with_hooks") and log.get("suite_passes_with_change") and ok_with is False and ok_without is True
    log["confirmed"] = bool(confirmed)
    os.makedirs(dest, exist_ok=True)
    shutil.copy(patch, dest + "/patch.diff")
    if os.path.exists(demo_diff):
        shutil.copy(demo_diff, dest + "/demo.diff")
    if demo_script:
        shutil.copy(demo_script, dest + "/demo." + demo_script.rsplit(".", 1)[1])
    earlier = []
    if os.path.exists(dest + "/meta.json"):
        try:
            om = json.load(open(dest + "/meta.json"))
            earlier = om.get("earlier_check_runs", [])
            oc = om.get("confirmation", {})
            if oc.get("checks_on_patched_tree"):
                earlier.append({"verif_commit": oc.get("verif_commit"), "checks_on_patched_tree": oc["checks_on_patched_tree"]})
        except Exception:
            pass
    log["verif_commit"] = subprocess.run("git -C /verif rev-parse --short HEAD", shell=True, capture_output=True, text=True).stdout.strip()
    meta = {
        "breaks_property": prop,
        "summary": meta_in.get("summary"),
        "needs_to_manifest": meta_in.get("needs_to_manifest"),
        "demo_cmd_as_given_by_author": meta_in.get("demo_cmd"),
        "files_touched": meta_in.get("files_touched"),
        "origin": "independent sub-agent given only the property text and a scratch worktree",
        "confirmation": log,
        "earlier_check_runs": earlier,
    }
    json.dump(meta, open(dest + "/meta.json", "w"), indent=1)
    print(json.dumps({k: log[k] for k in log if k != "ran"}, indent=1)[:3000])
    return 0


if __name__ == "__main__":
    sys.exit(main())
