#!/usr/bin/env python3
"""Validates MANIFEST.json and every evidence file against the given schemas (needs the tooling venv: python3-vt)."""
import glob, json, sys, jsonschema
ok = True
try:
    jsonschema.validate(json.load(open('/verif/MANIFEST.json')), json.load(open('/root/.vp/MANIFEST.schema.json')))
    print('MANIFEST.json valid')
except Exception as e:
    ok = False; print('MANIFEST.json INVALID:', str(e)[:500])
es = json.load(open('/root/.vp/EVIDENCE.schema.json'))
for f in sorted(glob.glob('/verif/evidence/*.json')):
    try:
        jsonschema.validate(json.load(open(f)), es)
    except Exception as e:
        ok = False; print(f, 'INVALID:', str(e)[:500])
print('evidence files checked:', len(glob.glob('/verif/evidence/*.json')))
sys.exit(0 if ok else 1)
