#!/usr/bin/env python3
"""Regenerates the table of seeded changes in DESIGN.md (section 8) from /verif/seeded/*/meta.json."""
import glob, json, os, re
V = os.path.dirname(os.path.dirname(os.path.abspath(__file__)))
rows = []
n_conf = 0
for d in sorted(glob.glob(V + "/seeded/*/meta.json")):
    m = json.load(open(d))
    sid = os.path.basename(os.path.dirname(d))
    c = m.get("confirmation", {})
    checks = c.get("checks_on_patched_tree", {})
    first = {}
    for er in m.get("earlier_check_runs", []):
        for k, v in er.get("checks_on_patched_tree", {}).items():
            first.setdefault(k, v)
    det = ", ".join("%s %s (%.0f s)" % (k, "**detects**" if v.get("detected") else "silent", v.get("wall_s", 0)) for k, v in sorted(checks.items()))
    missed = [k for k, v in first.items() if not v.get("detected") and checks.get(k, {}).get("detected")]
    if missed:
        det += "; **the %s of the time did not report it** (%s) -- strengthened since" % (", ".join(missed), "; ".join("machinery error" if "MACHINERY" in first[k].get("output", "") else "silent" for k in missed))
    rc = m.get("rechecks") or []
    if rc:
        last = rc[-1]
        det += "; regression run at %s: %s" % (last.get("verif_commit"), ", ".join("%s %s" % (k, "detects" if v.get("detected") else "SILENT") for k, v in sorted(last.get("checks", {}).items())))
    summ = (m.get("summary") or "").strip().replace("\n", " ").replace("|", "/")
    if len(summ) > 200:
        summ = summ[:197] + "..."
    need = (m.get("needs_to_manifest") or "").strip().replace("\n", " ").replace("|", "/")
    if len(need) > 170:
        need = need[:167] + "..."
    ok = "yes" if c.get("confirmed") else "NO"
    n_conf += 1 if c.get("confirmed") else 0
    note = (m.get("note") or "").replace("|", "/")
    if note:
        det += ". " + note
    rows.append("| %s | %s | %s | %s | %s |" % (sid, summ, need, ok, det))
table = "| id | change (author's summary, abridged) | needs, to manifest | confirmed (builds both ways, 91/91 tests, demo fails with / passes without) | checks run against the patched tree (quick tier) |\n|----|----|----|----|----|\n" + "\n".join(rows)
p = V + "/DESIGN.md"
s = open(p).read()
begin, end = "<!-- SEEDED-TABLE-BEGIN -->", "<!-- SEEDED-TABLE-END -->"
block = begin + "\n" + table + "\n" + end
if begin in s:
    s = re.sub(re.escape(begin) + ".*?" + re.escape(end), lambda _: block, s, flags=re.S)
else:
    s = s.replace("SEEDED-TABLE-PLACEHOLDER", block)
open(p, "w").write(s)
print("rows:", len(rows), "confirmed:", n_conf)
