#!/bin/bash
# Evaluation of the machinery (decides no property): builds every harness group against a scratch
# copy of /repo in which MoveGenerator, LookupTable, Evaluator, ZobristTable, TranspositionTable and
# SearchTimer carry a PhantomData<Cell<()>> field, i.e. are no longer shareable between threads --
# what any interior-mutability cache would make them. The harness must still build: its workers use
# per-thread instances. usage: tools/nosync_bed.sh   (removes its scratch tree afterwards)
set -e
W=/tmp/nosync_bed
git -C /repo worktree remove --force $W 2>/dev/null || true
git -C /repo worktree add -q --detach $W HEAD
cd $W
python3 - <<'PY'
import re
for path,struct in [('src/eval.rs','Evaluator'),('src/lookup.rs','LookupTable'),('src/move_gen.rs','MoveGenerator'),('src/transposition.rs','TranspositionTable'),('src/zobrist.rs','ZobristTable'),('src/timer.rs','SearchTimer')]:
    s=open(path).read()
    s=re.sub(r'(pub struct %s \{\n)'%struct, r'\1    pub nosync: std::marker::PhantomData<std::cell::Cell<()>>,\n', s, count=1)
    # first `Self {` after `pub fn new` / `pub fn init` of that impl
    i=s.index('impl %s {'%struct)
    j=re.compile(r'^\s+Self \{$', re.M).search(s, i).end()
    s=s[:j]+'\n            nosync: std::marker::PhantomData,'+s[j:]
    open(path,'w').write(s)
PY
CARGO_NET_OFFLINE=true cargo build --offline --quiet
rc=0
for f in search c10 c11 c12 c14 c15 c04 bb; do
  if (cd /verif/mc && CARGO_TARGET_DIR=$W/mc-$f FLOUNDER_REPO=$W cargo build --release --offline --quiet --no-default-features --features $f 2>$W/err-$f.txt); then echo "group $f: builds"; else echo "group $f: DOES NOT BUILD"; grep -E "^error" -A 6 $W/err-$f.txt | head -20; rc=1; fi
done
cd /; git -C /repo worktree remove --force $W
exit $rc
